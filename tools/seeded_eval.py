#!/usr/bin/env python3
"""usage: tools/seeded_eval.py <seeded dir> <check id> [<check id> ...]
Applies <dir>/patch.diff to /repo, runs the given quick checks, reverts /repo, and records which check
reported what in <dir>/detect.json (merged with earlier results)."""
import json, os, re, subprocess, sys
d = os.path.abspath(sys.argv[1]); ids = sys.argv[2:]
def sh(cmd, **kw): return subprocess.run(cmd, shell=True, capture_output=True, text=True, **kw)
if sh("git -C /repo diff --quiet").returncode != 0:
    print("refusing: /repo has uncommitted changes"); sys.exit(2)
if sh("git -C /repo apply %s/patch.diff" % d).returncode != 0:
    print("patch does not apply"); sys.exit(2)
res = {}
try:
    for i in ids:
        r = sh("cd /verif && ./run.sh %s quick" % i)
        out = r.stdout + r.stderr
        classes = dict(re.findall(r"^violation-class (.+?): (\d+) runs", out, re.M))
        summ = re.findall(r"^\[%s\] runs=.*$" % i, out, re.M)
        res[i] = {"exit": r.returncode, "violation_classes": classes, "summary": summ[-1] if summ else "",
                  "harness_error": "HARNESS-ERROR" in out}
        print(d, i, "exit", r.returncode, list(classes.items())[:3])
finally:
    sh("git -C /repo checkout -- .")
p = os.path.join(d, "detect.json")
old = json.load(open(p)) if os.path.exists(p) else {}
old.update(res)
json.dump(old, open(p, "w"), indent=1)
