#!/usr/bin/env python3
"""Moves confirmed seeded changes from a staging area into /verif/seeded/<id>/ (patch.diff, demonstration,
description, meta.json) and regenerates the matrix of DESIGN.md section 11.
usage: tools/mkseeded.py [staging dir ...]"""
import json, os, re, shutil, sys, glob
HERE = os.path.dirname(os.path.dirname(os.path.abspath(__file__)))
SEEDED = os.path.join(HERE, "seeded")
os.makedirs(SEEDED, exist_ok=True)
for st in sys.argv[1:]:
    name = os.path.basename(st.rstrip("/"))
    cj = os.path.join(st, "confirm.json")
    if not os.path.exists(cj):
        print("skip (not confirmed yet):", name); continue
    conf = json.load(open(cj))
    if not conf.get("confirmed"):
        print("skip (confirmation failed):", name, conf); continue
    dst = os.path.join(SEEDED, name)
    os.makedirs(dst, exist_ok=True)
    for f in os.listdir(st):
        if f.endswith(".log"):
            continue
        src = os.path.join(st, f)
        if os.path.isdir(src):
            shutil.copytree(src, os.path.join(dst, f), dirs_exist_ok=True)
        else:
            shutil.copy(src, os.path.join(dst, f))
    md = [f for f in os.listdir(dst) if f.startswith("MUTATION_") and f.endswith(".md")]
    desc = open(os.path.join(dst, md[0])).read() if md else ""
    detect = json.load(open(os.path.join(dst, "detect.json"))) if os.path.exists(os.path.join(dst, "detect.json")) else {}
    meta = {
        "property": name.split("-")[0],
        "origin": "independent sub-agent given only the property text and a scratch worktree of /repo",
        "description_file": md[0] if md else None,
        "needs_to_manifest": (re.search(r"(?is)(needed for it to manifest|trigger|what is needed)[^\n]*\n(.{0,900})", desc) or [None, None, ""])[2].strip()[:900],
        "confirmed_in_scratch_worktree": conf,
        "what_was_run": "tools/confirm_seeded.sh (apply patch + demo in a scratch worktree: full suite with the change; demo alone without it), tools/seeded_eval.py (patch applied to /repo, quick checks run, /repo reverted)",
        "detected_by": {k: {"exit": v["exit"], "classes": v["violation_classes"]} for k, v in detect.items()},
    }
    json.dump(meta, open(os.path.join(dst, "meta.json"), "w"), indent=1)
    print("kept:", name)

# matrix
rows = []
for d in sorted(glob.glob(os.path.join(SEEDED, "*"))):
    mp = os.path.join(d, "meta.json")
    if not os.path.exists(mp):
        continue
    m = json.load(open(mp))
    dj = os.path.join(d, "detect.json")
    if os.path.exists(dj):
        m["detected_by"] = {k: {"exit": v["exit"], "classes": v["violation_classes"]} for k, v in json.load(open(dj)).items()}
        json.dump(m, open(mp, "w"), indent=1)
    det = m.get("detected_by", {})
    caught = [f"{k} ({', '.join(list(v['classes'])[:2])})" for k, v in det.items() if v["exit"] == 1]
    missed = [k for k, v in det.items() if v["exit"] == 0]
    md = m.get("description_file")
    title = ""
    if md and os.path.exists(os.path.join(d, md)):
        for line in open(os.path.join(d, md)):
            if line.strip() and not line.startswith("#"):
                title = line.strip()[:160]; break
            if line.startswith("#"):
                title = line.strip("# \n")[:160]
    rows.append(f"| {os.path.basename(d)} | {title} | {'; '.join(caught) or '—'} | {', '.join(missed) or '—'} |")
table = "| seeded change | what it is | caught by (violation classes) | run but silent |\n|---|---|---|---|\n" + "\n".join(rows)
own = os.path.join(HERE, "seeded", "OWN_BREAKS.md")
own_txt = open(own).read() if os.path.exists(own) else ""
p = os.path.join(HERE, "DESIGN.md")
s = open(p).read()
a = s.index("## 11. Which check catches which change")
b = s.index("## Appendix A")
s = s[:a] + "## 11. Which check catches which change  **[as built]**\n\n126 independently written changes in four rounds (each by a fresh sub-agent that saw only the property text - from the second round on also one-line descriptions of the earlier changes of that property, to be avoided - and a scratch worktree; kept only after `tools/confirm_seeded.sh` confirmed: compiles, the 166-test suite passes with it, its demonstration fails with it and passes without). Detection = `tools/seeded_eval.py` (patch applied to /repo, quick tier, default seed, /repo reverted) with the checks as they are now; what was missed when each batch first came back, and what that led to, is in the four tables after the matrix. Summary: 125 of the 126 are caught by the check of their own property; one (C10-R4A) needs a stand-in Bitcoin node and is caught by nothing.\n\n" + table + "\n\n" + own_txt + "\n" + s[b:]
open(p, "w").write(s)
print("matrix rows:", len(rows))
