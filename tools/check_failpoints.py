#!/usr/bin/env python3
"""Every persistent RocksDB write must be preceded by a failpoint line; an un-instrumented write
would make the crash enumeration (C04/C20) silently incomplete. Files that use rocksdb directly
are found by their import, so a new storage component is covered too."""
import os, re, sys
REPO = os.environ.get("VERIF_REPO", "/repo")
WRITE = re.compile(r"\.(put|delete|flush|write|merge|delete_range|put_cf|delete_cf|write_opt|flush_wal)\(")
bad = []
for d, _, files in os.walk(os.path.join(REPO, "src")):
    for f in files:
        if not f.endswith(".rs") or f == "verif.rs":
            continue
        p = os.path.join(d, f)
        src = open(p).read()
        if "rocksdb::" not in src:
            continue
        lines = src.split("\n")
        for i, l in enumerate(lines):
            if "#[cfg(test)]" in l:
                break
            if l.strip().startswith("//"):
                continue
            if not WRITE.search(l):
                continue
            # the statement this call belongs to (back to the previous ';' / '{' / '}')
            j = i
            stmt = l
            while j > 0 and not re.search(r"[;{}]\s*$", lines[j - 1]):
                j -= 1
                stmt = lines[j] + stmt
            if not re.search(r"\b(db|cache_db)\b", stmt):
                continue
            prev = "\n".join(lines[max(0, j - 3):j])
            if "crate::verif::failpoint(" not in prev:
                bad.append("%s:%d: %s" % (p, i + 1, l.strip()))
# a write without a failpoint is not a crash point of the enumeration; the checks still run (a crash at every other
# write is enumerated, the un-instrumented write executes normally) and say so in their output and evidence
import json
out = os.path.join(os.path.dirname(os.path.dirname(os.path.abspath(__file__))), "shadow", "unhooked_writes.json")
json.dump(bad, open(out, "w"), indent=1)
if bad:
    print("HARNESS-WARNING: persistent writes without a failpoint (not enumerated as crash points):\n  " + "\n  ".join(bad))
else:
    print("failpoints ok")
