#!/bin/bash
# usage: tools/confirm_seeded.sh <staging dir of one seeded change> [<worktree> <target dir>]
# Confirms, in a scratch worktree of /repo (never /repo itself), that the change compiles, that the existing
# suite passes with it exactly as on the baseline, that its demonstration fails with it and passes without.
set -u
S="$1"; WT="${2:-/tmp/confirm-wt}"; TD="${3:-/tmp/confirm-target}"
export CARGO_NET_OFFLINE=true CARGO_TARGET_DIR="$TD"
cd "$WT" || exit 2
git checkout -q -- . ; git clean -fdq tests src
git apply "$S/patch.diff" || { echo '{"applies": false}' > "$S/confirm.json"; exit 1; }
cp -r "$S"/mutation*_demo_* tests/ 2>/dev/null
touch src/lib.rs
cargo test --workspace --no-fail-fast --offline > "$S/with_change.log" 2>&1
# without the change: demo only
git checkout -q -- src; touch src/lib.rs
demos=$(ls tests | grep '^mutation[0-9]\?_demo_.*\.rs$' | sed 's/\.rs$//')
: > "$S/without_change.log"
for d in $demos; do cargo test --offline --test "$d" >> "$S/without_change.log" 2>&1; done
python3 - "$S" <<'PY'
import re,sys,json
S=sys.argv[1]
w=open(S+'/with_change.log').read(); wo=open(S+'/without_change.log').read()
def by_section(text):
    """(test name, status, is_demo_binary) for every result line, by the test binary it was printed under"""
    out=[]; demo=False
    for line in text.splitlines():
        m=re.match(r'\s*Running (\S+)',line)
        if m:
            demo=bool(re.search(r'mutation\d?_demo_',m.group(1))); continue
        for t,st in re.findall(r'test (\S+) \.\.\. (ok|FAILED)',line):
            out.append((t,st,demo))
    return out
rw=by_section(w)
failed_with=sorted(set(t for t,st,d in rw if st=='FAILED'))
baseline={'test_btc_rpc_precompiles_mainnet','test_btc_rpc_precompiles_signet'}
compiled='error: could not compile' not in w and 'error[E' not in w
isdemo=lambda t: any(d for t2,st,d in rw if t2==t) or 'mutation' in t or 'demo' in t
suite_fail=[t for t in failed_with if t not in baseline and not isdemo(t)]
demo_fail=[t for t in failed_with if isdemo(t)]
passed_without=re.findall(r'^test (\S+) \.\.\. ok',wo,re.M)
failed_without=re.findall(r'^test (\S+) \.\.\. FAILED',wo,re.M)
res={"applies":True,"compiles":compiled,"suite_failures_beyond_baseline":suite_fail,"demo_tests_failing_with_change":demo_fail,
     "demo_tests_passing_without_change":passed_without,"demo_tests_failing_without_change":failed_without,
     "confirmed": compiled and not suite_fail and len(demo_fail)>0 and not failed_without}
json.dump(res,open(S+'/confirm.json','w'),indent=1); print(S, json.dumps(res))
PY
git checkout -q -- . ; git clean -fdq tests src
