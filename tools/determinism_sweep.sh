#!/bin/bash
# usage: tools/determinism_sweep.sh [ids...]   (default: every claimed check)
# Runs the quick tier of each check twice, with 16 and with 7 worker processes, and compares the digest over the
# transcripts of all runs of the batch. Evidence files are restored afterwards (the sweep is not evidence).
cd "$(dirname "$0")/.."
ids="$@"; [ -z "$ids" ] && ids=$(python3 -c "import json; print(' '.join(c['property_id'] for c in json.load(open('MANIFEST.json'))['checks']))")
./build.sh >/dev/null 2>&1 || { echo "build failed"; exit 2; }
rc=0
for id in $ids; do
  cp evidence/$id.json /tmp/evidence-$id.bak 2>/dev/null
  a=$(VERIF_WORKERS=16 ./sim/target/debug/brc20-sim check $id --tier quick 2>/dev/null | grep "batch transcript digest" | awk '{print $NF}')
  b=$(VERIF_WORKERS=7 ./sim/target/debug/brc20-sim check $id --tier quick 2>/dev/null | grep "batch transcript digest" | awk '{print $NF}')
  cp /tmp/evidence-$id.bak evidence/$id.json 2>/dev/null; rm -f /tmp/evidence-$id.bak
  if [ -n "$a" ] && [ "$a" = "$b" ]; then echo "$id deterministic ($a)"; else echo "$id DIFFERS: 16 workers $a / 7 workers $b"; rc=1; fi
done
exit $rc
