#!/usr/bin/env python3
"""Writes /verif/MANIFEST.json from the table below (single source of truth for what is claimed)."""
import json, os, subprocess
HERE = os.path.dirname(os.path.dirname(os.path.abspath(__file__)))
REPO = "/repo"

CLAIMED = {
  # id: (level category, technique, level text, level note, design ref)
  "C01": ("exploration", "deterministic simulation: seeded histories with reorg faults, replica oracle (fresh replay) + admission-window model",
          "Seeded search over call histories (all op kinds, commit schedules, clearCaches, restarts, idle gaps, regrowth) with reorgs at depths -1..12; every reorg is judged by the admission oracle and every accepted one by full-observation equality with a fresh replay of the canonical chain up to N, then both sides are extended with the same blocks. Sampling, not proof.",
          "Real engine/RPC handlers/revm/RocksDB on tmpfs driven in-process; Bitcoin node stubbed as unreachable; program space = hand-assembled contract library; brc20_mine(n) treated as n x mine(1) on replay.",
          "DESIGN.md 4 C01"),
  "C02": ("exploration", "deterministic simulation: lockstep replicas with seeded hash-container order, commit/restart schedules; pinned golden transcript digests; cross-process re-execution",
          "One seeded history is fed to three replicas differing only in what the property says must not matter (hash seed, commit schedule, commit+restart points, directory); every call result and sampled boundary observations are compared with list order preserved. Pinned golden corpora (explicit call lists + digests per protocol/db version) are replayed in every batch, and a sample of runs is re-executed in a second OS process. Sampling, not proof.",
          "Golden digests drop error message text. std RandomState inside dependencies (revm) is not seeded; its effects are covered only by the cross-process re-execution.",
          "DESIGN.md 4 C02"),
  "C03": ("exploration", "deterministic simulation: commit-schedule/clearCaches/restart fault injection against an undisturbed never-committing twin and fresh replay to the last commit",
          "Seeded histories crossed with commit schedules, clearCaches (boundary and mid-block) and restarts; oracles: equality with a twin that never commits, equality with a fresh replay up to the last committed height after a loss, and re-convergence after the lost calls are fed again. Sampling, not proof.",
          "Process stop = dropping the engine and reopening the RocksDB directories (completed writes survive). Reorgs are part of the common history of both replicas; a commit accepted while the block under construction holds only parked transactions is modelled (they are durable).",
          "DESIGN.md 4 C03"),
  "C04": ("fault_enumeration", "deterministic simulation with fault enumeration: process death injected before every persistent write (failpoints), reopen, repairing reorg, replica oracle",
          "For each seeded history every persistent write of commitToDatabase, reorg and finalisation is a crash point (quick: up to 80 per history - every write to the un-versioned block tables inside reorgs and one commit, first/last/site-change writes, random fill; thorough: every index); every fifth image dies a second time inside the repairing reorg; a sample of crash points is repeated as a real kill of a child process and, where that image differs from the simulated one, recovery is checked on the real image; the directory is reopened and judged against a fresh replay (state of the last commit for crashes outside commit/reorg; state of H after brc20_reorg(H) for crashes inside). Exhaustive over the crash indices of the generated histories only; the histories themselves are sampled.",
          "Process-death semantics: completed RocksDB writes survive, simulated by failing the write and all later ones and dropping the instance. Power loss with unsynced WALs is outside the statement ('the process dies').",
          "DESIGN.md 4 C04"),
  "C05": ("exploration", "deterministic simulation: out-of-protocol call injection at every position class, before/after observation + clean-twin oracle",
          "Seeded valid histories with 25 kinds of malformed / out-of-protocol calls injected at block boundaries and mid-block; listed kinds must be rejected, rejected calls must leave observations unchanged, and the history must stay equal to a clean twin without the injected calls. Sampling, not proof.",
          "State of the block under construction is observed indirectly (continuation of the block and the clean twin).",
          "DESIGN.md 4 C05"),
  "C06": ("exploration", "deterministic simulation with a runtime coherence monitor (own bloom, own SHA-256 merkle, RLP decoding in the harness) at every block boundary",
          "Seeded histories of all op kinds incl. reorg + regrowth and all commit schedules; after every finalise the newest blocks and at the end all heights are checked against independently recomputed blooms, merkle roots, sums and RLP decodings and against the receipts the indexer was handed. Sampling, not proof.",
          "Two understood hash-collision situations are recorded as known findings and their by-hash checks are skipped for the colliding transactions only.",
          "DESIGN.md 4 C06"),
  "C07": ("exploration", "deterministic simulation against a reference ledger model (plain maps over u256) across reorgs, commits, clearCaches and restarts",
          "Seeded interleavings of deposits, withdrawals, controller/token transfers, approvals, transferFroms and hostile mint/burn calls by pkscript senders, signers and user contracts; the ledger is updated from the inputs of operations that reported success and compared at every block boundary with brc20_balance (all case variants), balanceOf of every known holder and totalSupply. Sampling, not proof.",
          "Allowance sufficiency is not modelled; holders universe is the fixed identity pool plus deployed contracts (leaks elsewhere show up as supply != sum).",
          "DESIGN.md 4 C07"),
  "C08": ("exploration", "deterministic simulation: faulty channel of signed transactions (reorder, duplicate, delay, loss, replacement) against a reference pending-pool model",
          "Seeded arrival orders of signed transactions of 3 signers with gaps, duplicates, stale / far-future / wrong-chain transactions, idle gaps and reorgs, plus window-edge scenarios (1-3 parked nonces, every arrival order, ages 8..12); the model predicts receipts per call, nonces, indexes, account nonce and the txpool view. Sampling, with a small enumerated corner.",
          "Replacement of a waiting nonce modelled as last-wins; entries expiring on the neighbouring block may or may not be listed by txpool_content.",
          "DESIGN.md 4 C08"),
  "C09": ("exploration", "deterministic simulation: seeded hostile request injection in varied engine states with panic / process-death / no-progress monitors and liveness + write probes",
          "Seeded preparation histories (empty database, mid-block, after reorgs) followed by hostile requests over the live method table (parameter mutations, payload encodings, random bytecode, ABI-valid and -invalid precompile input, garbage RLP); monitors: caught panics, worker death, 45 s no-progress watchdog with confirmation re-run, liveness probe after every request and write probe every 8th and at the end. One run in forty instead abuses the real server (public start(), loopback, authentication on in half) with 6-15 seeded transport faults of 23 kinds (torn / oversized / malformed requests, vanishing clients during a heavy call or a wait for the open block, connection floods, pipelining, bad chunking, WebSocket garbage, odd Authorization bytes), each followed by a fresh-connection probe and a check of the process-wide panic record. Sampling, not proof.",
          "Input generation finds the decoder panics; the simulated part is the stateful follow-up (wedged engine, poisoned lock, hang). Work-bounding parameters (block_count, inscription_byte_len) only take small values. Bitcoin-node panics are classified as environment.",
          "DESIGN.md 4 C09"),
  "C10": ("exploration", "deterministic simulation: read requests injected at every boundary / mid-block, before/after observation, twin without reads, on-disk comparison after commit",
          "Seeded histories with executing reads running state-mutating bytecode (eth_call, eth_callMany with carry-over/overrides, estimateGas(Many), brc20_balance) and getters; oracles: observation unchanged by each read, equality with a twin that never reads, and key-by-key equality of all RocksDB directories after a final commit; reads carry explicit block parameters (tags, past and future heights, garbage) and Bitcoin-transaction overrides, the common history contains clearCaches and restarts. Sampling, not proof.",
          "mineTimestamp masked in stored block rows.",
          "DESIGN.md 4 C10"),
  "C11": ("exploration", "deterministic simulation of thread interleavings: real handler threads parked at every lock acquire/release (lock seam), seeded scheduler with a writer-preferring RwLock admission model, replayable schedules",
          "Sets of 2-4 concurrent requests (explorer reads and indexer writes) on instances prepared by seeded histories; every SharedData acquire/release is a scheduling point at which a seeded scheduler releases exactly one thread; a state with no admissible thread is a deadlock, reported with the wait-for description and the decision list that replays it. Seeded search over schedules, not enumeration.",
          "Only the application locks are modelled; the admission rule is std's futex RwLock policy (reader blocked while a writer is queued). The 5 s wait collapses to an immediate timeout under the paused clock.",
          "DESIGN.md 4 C11, Appendix B"),
  "C12": ("fault_enumeration", "fault enumeration over the real HTTP/JSON-RPC stack: every method x request shape x credential fault, state digest before/after each unauthorised request",
          "The real start() on loopback and one synchronous client enumerate every registered method x {call, notification, batch element first/middle/last} x {no, wrong-user, wrong-password, malformed, correct header} x 8 authentication settings (ordinary, blank, half-blank and colon-containing credentials, disabled with and without credentials configured, enabled with a credential missing - then start() must fail); unauthorised requests must not change a public state digest, protected methods answer 401 per element, public ones keep working, authorised ones are never refused; calling every non-protected method with well-formed parameters checks the completeness of the protected list, registered names without a parameter template are tried with the parameters of every protected method, and anonymous reads that the EVM refuses must leave the indexer able to continue. Exhaustive over that matrix for the prepared state; seeds vary state details.",
          "Real sockets with a single blocking client (the transcript is a function of the request list). WebSocket transport not exercised.",
          "DESIGN.md 4 C12"),
  "C13": ("exploration", "deterministic component simulation against a key -> full-history reference model (seeded op sequences incl. commit/discard/reopen/rollback), plus a bounded exhaustive pass",
          "Seeded op sequences on the real BlockCachedDatabase (5 key types), BlockDatabase and BlockHistoryCacheData over RocksDB on tmpfs, checked step by step against a trivial model: all point reads after every step, range scans complete and ordered, full scans, rollback inside the window right, deeper rollbacks refused or right, <= 11 persisted versions. A 7-letter alphabet is enumerated to depth 5/7 as a supplement. Sampling, not proof.",
          "Window measured from the highest block the table has ever been told about (what pruning is relative to). Component preconditions (monotone block numbers) respected by the generator.",
          "DESIGN.md 4 C13"),
  "C16": ("exploration", "deterministic simulation: seeded chain states, gas-allowance sweep per program and estimate -> transaction loop closed on the same instance",
          "In chain states reached by seeded histories (commits, reorgs), generated programs are submitted with inscription lengths from 0 to 2^64-1: gasUsed <= saturating allowance, failed transactions leave accounts/code/storage unchanged except the sender's nonce, and eth_estimateGas -> brc20_call with ceil(estimate/12000) bytes succeeds with eth_call's output (also across a reorg that changes what the call costs); probes travel as hex or base64 inscriptions or as signed transactions; the first two runs of every batch work at heights 330000 (signet) and 980000 (mainnet). Sampling, not proof.",
          "Programs that swallow sub-call failures or read GAS/TIMESTAMP/PREVRANDAO/0xfa are excluded as the statement allows.",
          "DESIGN.md 4 C16"),
  "C17": ("exploration", "deterministic simulation: seeded chain states, eth_call followed by the same transaction on the same instance",
          "At block boundaries of seeded histories eth_call (calls and creations) is compared with the transaction executed next with the same sender, target and data and the same gas limit: success flag, return / revert data, installed code of creations. Sampling, not proof.",
          "EVM_CALL_GAS_LIMIT is configured to the allowance of the transactions (24M) so both paths run with the same limit; the Probe program (time, randomness, txid) is excluded.",
          "DESIGN.md 4 C17"),
  "C18": ("exploration", "deterministic simulation: seeded histories x commit schedules x hash seeds, reference log filter over the receipts handed to the indexer",
          "Seeded histories with 0-4-topic logs under all commit schedules and hash seeds (committed, partly committed and uncommitted ranges), 4 seeded filters per block boundary compared with a reference filter: same logs, each once, chain order; too-wide ranges refused. Sampling, not proof.",
          "Empty alternative lists, null inside a list and the answer to a reversed range are left open by the statement and not judged (a panic is).",
          "DESIGN.md 4 C18"),
  "C19": ("exploration", "deterministic simulation: Probe contract executed through every transaction path (inscription, signed, parked-then-drained, via contract) and read back",
          "Seeded histories on 6 networks (with / without Prague at low heights) execute a context-recording contract as inscription, signed, parked-then-drained and nested transaction, with arbitrary timestamps, explicit and generated hashes, idle gaps > 256 blocks, commits and reorgs; every recorded field is compared with what the harness supplied for that transaction. Sampling, not proof.",
          "The first six runs of every batch are mined to a few blocks below an activation height (signet 275000, mainnet 923369 - pinned in the harness) so that their blocks straddle it.",
          "DESIGN.md 4 C19"),
  "C20": ("fault_enumeration", "fault enumeration with the real start(): all (creating, reopening) configuration pairs, tampered / missing records, foreign directories, crash points of the first-run recording",
          "All 16 x 16 ordered configuration pairs over 8 networks (incl. the empty name) x traces on/off, each of the 4 recorded keys removed or altered (numeric and non-numeric values) in the config database, populated directory without config, foreign non-empty directory, every write of the first-run recording as a crash point, and two child processes per configuration (one of which ran another configuration first) that must serve the same configuration-dependent history. Identical configuration must reopen and serve the same digest; anything else must fail to start and leave the data usable under the original configuration. Exhaustive over that finite space.",
          "Version constants are varied by tampering with the stored record (they cannot vary within one build).",
          "DESIGN.md 4 C20"),
}

NOT_APPLICABLE = {
  "C14": "pure function of one value (encode/decode round trip, key order): no schedule, clock, fault, crash point or history in it, so deterministic simulation adds nothing over input generation (a different technique); the slices storage depends on are exercised inside C03/C13/C18",
  "C15": "pure function of one request payload (decode(encode(x)), size bound, hex/base64 equivalence): not a simulation target; payload encodings are a swarm knob of the workloads of C02/C05/C09",
}

PENDING = "check not built yet in this round (work in progress; will be claimed or justified as not applicable before the end)"

def main():
    props = [json.loads(l)["id"] for l in open(os.path.join(HERE, "properties.jsonl"))]
    commits = subprocess.run(["git", "-C", REPO, "log", "--format=%H %s"], capture_output=True, text=True).stdout.strip().split("\n")
    hook_commits = [c.split(" ")[0] for c in commits if " verif hooks:" in c]
    checks = []
    for pid in props:
        if pid not in CLAIMED:
            continue
        cat, tech, text, note, ref = CLAIMED[pid]
        checks.append({
            "property_id": pid,
            "quick_cmd": "./run.sh %s quick" % pid,
            "thorough_cmd": "./run.sh %s thorough" % pid,
            "evidence_file": "/verif/evidence/%s.json" % pid,
            "replay_cmd_template": "./sim/target/debug/brc20-sim replay {path}",
            "engine": "brc20-sim",
            "level_claimed": {"category": cat, "text": text, "design_ref": ref},
            "level_note": note,
            "technique": tech,
        })
    na = []
    for pid in props:
        if pid in CLAIMED:
            continue
        na.append({"property_id": pid, "reason": NOT_APPLICABLE.get(pid, PENDING)})
    m = {
        "version": 1,
        "setup_cmd": "./build.sh",
        "hooks": {
            "guard": "--cfg brc20_prog_verif (set only for the brc20-prog package by /verif/shadow/build.rs)",
            "enable": "tools/mkshadow.py generates /verif/shadow/Cargo.toml from /repo/Cargo.toml with src -> /repo/src and a build.rs that prints cargo:rustc-cfg=brc20_prog_verif; /verif/sim depends on it by path",
            "baseline_off_cmd": "cd /repo && cargo test --workspace --no-fail-fast --offline",
            "source_commits": hook_commits,
            "add_only": True,
        },
        "engines": [{
            "name": "brc20-sim", "path": "/verif/sim",
            "serves_properties": [c["property_id"] for c in checks],
            "kind_free_text": "deterministic simulator: seeded workload/fault/schedule generation, real engine in-process on tmpfs RocksDB, paused tokio clock, replica and reference-model oracles, replay + minimisation",
        }],
        "checks": checks,
        "not_applicable": na,
        "notes": "All checks: exit 0 held / 1 VIOLATION property=<id> replay=<path> / 2 harness error. VERIF_SEED selects the root seed (default 1). known_findings.json lists recorded and fixed defects.",
    }
    json.dump(m, open(os.path.join(HERE, "MANIFEST.json"), "w"), indent=1)
    print("MANIFEST.json: %d checks, %d not claimed" % (len(checks), len(na)))

main()
