#!/usr/bin/env python3
"""Writes /verif/MANIFEST.json from the table below (single source of truth for what is claimed)."""
import json, os, subprocess
HERE = os.path.dirname(os.path.dirname(os.path.abspath(__file__)))
REPO = "/repo"

CLAIMED = {
  # id: (level category, technique, level text, level note, design ref)
  "C01": ("exploration", "deterministic simulation: seeded histories with reorg faults, replica oracle (fresh replay) + admission-window model",
          "Seeded search over call histories (all op kinds, commit schedules, clearCaches, restarts, idle gaps, regrowth) with reorgs at depths -1..12; every reorg is judged by the admission oracle and every accepted one by full-observation equality with a fresh replay of the canonical chain up to N, then both sides are extended with the same blocks. Sampling, not proof.",
          "Real engine/RPC handlers/revm/RocksDB on tmpfs driven in-process; Bitcoin node stubbed as unreachable; program space = hand-assembled contract library; brc20_mine(n) treated as n x mine(1) on replay.",
          "DESIGN.md 4 C01"),
}

NOT_APPLICABLE = {
  "C14": "pure function of one value (encode/decode round trip, key order): no schedule, clock, fault, crash point or history in it, so deterministic simulation adds nothing over input generation (a different technique); the slices storage depends on are exercised inside C03/C13/C18",
  "C15": "pure function of one request payload (decode(encode(x)), size bound, hex/base64 equivalence): not a simulation target; payload encodings are a swarm knob of the workloads of C02/C05/C09",
}

PENDING = "check not built yet in this round (work in progress; will be claimed or justified as not applicable before the end)"

def main():
    props = [json.loads(l)["id"] for l in open(os.path.join(HERE, "properties.jsonl"))]
    commits = subprocess.run(["git", "-C", REPO, "log", "--format=%H %s"], capture_output=True, text=True).stdout.strip().split("\n")
    hook_commits = [c.split(" ")[0] for c in commits if " verif hooks:" in c]
    checks = []
    for pid in props:
        if pid not in CLAIMED:
            continue
        cat, tech, text, note, ref = CLAIMED[pid]
        checks.append({
            "property_id": pid,
            "quick_cmd": "./run.sh %s quick" % pid,
            "thorough_cmd": "./run.sh %s thorough" % pid,
            "evidence_file": "/verif/evidence/%s.json" % pid,
            "replay_cmd_template": "./sim/target/debug/brc20-sim replay {path}",
            "engine": "brc20-sim",
            "level_claimed": {"category": cat, "text": text, "design_ref": ref},
            "level_note": note,
            "technique": tech,
        })
    na = []
    for pid in props:
        if pid in CLAIMED:
            continue
        na.append({"property_id": pid, "reason": NOT_APPLICABLE.get(pid, PENDING)})
    m = {
        "version": 1,
        "setup_cmd": "./build.sh",
        "hooks": {
            "guard": "--cfg brc20_prog_verif (set only for the brc20-prog package by /verif/shadow/build.rs)",
            "enable": "tools/mkshadow.py generates /verif/shadow/Cargo.toml from /repo/Cargo.toml with src -> /repo/src and a build.rs that prints cargo:rustc-cfg=brc20_prog_verif; /verif/sim depends on it by path",
            "baseline_off_cmd": "cd /repo && cargo test --workspace --no-fail-fast --offline",
            "source_commits": hook_commits,
            "add_only": True,
        },
        "engines": [{
            "name": "brc20-sim", "path": "/verif/sim",
            "serves_properties": [c["property_id"] for c in checks],
            "kind_free_text": "deterministic simulator: seeded workload/fault/schedule generation, real engine in-process on tmpfs RocksDB, paused tokio clock, replica and reference-model oracles, replay + minimisation",
        }],
        "checks": checks,
        "not_applicable": na,
        "notes": "All checks: exit 0 held / 1 VIOLATION property=<id> replay=<path> / 2 harness error. VERIF_SEED selects the root seed (default 1). known_findings.json lists recorded and fixed defects.",
    }
    json.dump(m, open(os.path.join(HERE, "MANIFEST.json"), "w"), indent=1)
    print("MANIFEST.json: %d checks, %d not claimed" % (len(checks), len(na)))

main()
