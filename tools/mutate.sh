#!/bin/bash
# usage: tools/mutate.sh <patch.diff> <check ids...>
# applies a seeded change to /repo, runs the given quick checks against it, and undoes it straight afterwards
set -u
PATCH="$1"; shift
cd /repo || exit 2
if ! git diff --quiet; then echo "refusing: /repo has uncommitted changes"; exit 2; fi
git apply "$PATCH" || { echo "patch does not apply"; exit 2; }
trap 'git -C /repo checkout -- . ; echo "(reverted /repo)"' EXIT
cd /verif
for id in "$@"; do
  out=$(./run.sh "$id" quick 2>&1); code=$?
  echo "== $id exit=$code"
  echo "$out" | grep -E "VIOLATION|violation class|violation-class|HARNESS|KNOWN|^\[C[0-9]+\] runs" | cut -c1-260 | head -12
done
