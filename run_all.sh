#!/bin/bash
# run every claimed check (quick by default) and summarise; used before committing evidence
cd "$(dirname "$0")"
TIER="${1:-quick}"
./build.sh >/dev/null 2>build.log || { echo "build failed"; tail -20 build.log; exit 2; }
rc=0
for id in $(python3 -c "import json; print(' '.join(c['property_id'] for c in json.load(open('MANIFEST.json'))['checks']))"); do
  start=$(date +%s)
  out=$(./run.sh "$id" "$TIER" 2>&1); code=$?
  end=$(date +%s)
  echo "$id exit=$code $((end-start))s $(echo "$out" | grep -E '^\[C[0-9]+\] runs=' | tail -1)"
  echo "$out" | grep -E "VIOLATION|KNOWN-FINDING|HARNESS" | cut -c1-200
  [ $code -ne 0 ] && rc=1
done
exit $rc
