#!/bin/bash
# usage: ./run.sh <property id> [quick|thorough]   (cwd: /verif)
# Rebuilds the simulator against /repo's current working tree (hooks on) and runs one check.
# exit 0 = held on everything explored, 1 = VIOLATION printed, 2 = harness error.
set -u
cd "$(dirname "$0")"
ID="${1:?property id}"
TIER="${2:-${VERIF_TIER:-quick}}"
export CARGO_NET_OFFLINE=true
export VERIF_ROOT="$(pwd)"
./build.sh >/dev/null 2>build.log || { echo "HARNESS-ERROR: build failed (see /verif/build.log)"; tail -30 build.log; exit 2; }
exec ./sim/target/debug/brc20-sim check "$ID" --tier "$TIER"
