//! Observation function obs(instance, universe) (DESIGN 3.2): canonical answers to every read the API offers.
#![allow(dead_code)]
use crate::inst::{Instance, Resp};
use crate::world::{pkscript, Universe, N_PK};
use serde_json::{json, Value};
use std::collections::BTreeMap;

pub type Obs = BTreeMap<String, Value>;

#[derive(Clone, Copy, PartialEq)]
pub enum Depth {
    /// non-executing getters only (usable mid-block)
    Getters,
    /// plus executing reads (brc20_balance; block boundaries only)
    Full,
}

fn q(inst: &mut Instance, out: &mut Obs, key: String, method: &str, params: Value) {
    let r = inst.call(method, params);
    out.insert(key, r.to_value());
}

pub fn observe(inst: &mut Instance, uni: &Universe, depth: Depth) -> Obs {
    let mut o = Obs::new();
    q(inst, &mut o, "blockNumber".into(), "eth_blockNumber", json!([]));
    // the block tags every height parameter accepts
    for tag in ["latest", "earliest", "pending", "safe", "finalized"] {
        q(inst, &mut o, format!("blockByTag/{tag}"), "eth_getBlockByNumber", json!([tag, false]));
    }
    q(inst, &mut o, "txCountByTag/latest".into(), "eth_getBlockTransactionCountByNumber", json!(["latest"]));
    q(inst, &mut o, "rawHeaderByTag/latest".into(), "debug_getRawHeader", json!(["latest"]));
    q(inst, &mut o, "logsByTag/latest".into(), "eth_getLogs", json!([{"fromBlock": "latest", "toBlock": "latest"}]));
    q(inst, &mut o, "logsByTag/none".into(), "eth_getLogs", json!([{}]));
    for h in uni.from_height..=uni.max_height + 1 {
        let hx = format!("0x{:x}", h);
        q(inst, &mut o, format!("blockByNumber/{h}"), "eth_getBlockByNumber", json!([hx, false]));
        q(inst, &mut o, format!("blockByNumberFull/{h}"), "eth_getBlockByNumber", json!([hx, true]));
        q(inst, &mut o, format!("txCountByNumber/{h}"), "eth_getBlockTransactionCountByNumber", json!([hx]));
        q(inst, &mut o, format!("rawHeader/{h}"), "debug_getRawHeader", json!([hx]));
        q(inst, &mut o, format!("rawBlock/{h}"), "debug_getRawBlock", json!([hx]));
        q(inst, &mut o, format!("rawReceipts/{h}"), "debug_getRawReceipts", json!([hx]));
        q(inst, &mut o, format!("traceString/{h}"), "debug_getBlockTraceString", json!([hx]));
        q(inst, &mut o, format!("traceHash/{h}"), "debug_getBlockTraceHash", json!([hx]));
        for i in 0..3u64 {
            q(inst, &mut o, format!("txByNumberIndex/{h}/{i}"), "eth_getTransactionByBlockNumberAndIndex", json!([h, i]));
        }
    }
    for bh in &uni.block_hashes {
        if bh.is_empty() {
            continue;
        }
        q(inst, &mut o, format!("blockByHash/{bh}"), "eth_getBlockByHash", json!([bh, false]));
        q(inst, &mut o, format!("blockByHashFull/{bh}"), "eth_getBlockByHash", json!([bh, true]));
        q(inst, &mut o, format!("txCountByHash/{bh}"), "eth_getBlockTransactionCountByHash", json!([bh]));
        q(inst, &mut o, format!("rawHeaderByHash/{bh}"), "debug_getRawHeader", json!([format!("\"{bh}\"")]));
        for i in 0..2u64 {
            q(inst, &mut o, format!("txByHashIndex/{bh}/{i}"), "eth_getTransactionByBlockHashAndIndex", json!([bh, i]));
        }
    }
    for th in &uni.tx_hashes {
        q(inst, &mut o, format!("tx/{th}"), "eth_getTransactionByHash", json!([th]));
        q(inst, &mut o, format!("receipt/{th}"), "eth_getTransactionReceipt", json!([th]));
        q(inst, &mut o, format!("trace/{th}"), "debug_traceTransaction", json!([th]));
        q(inst, &mut o, format!("inscByTx/{th}"), "brc20_getInscriptionIdByTxHash", json!([th]));
    }
    for id in &uni.inscription_ids {
        q(inst, &mut o, format!("receiptByInsc/{id}"), "brc20_getTxReceiptByInscriptionId", json!([id]));
    }
    for a in &uni.addresses {
        q(inst, &mut o, format!("nonce/{a}"), "eth_getTransactionCount", json!([a, "latest"]));
        q(inst, &mut o, format!("code/{a}"), "eth_getCode", json!([a]));
        q(inst, &mut o, format!("inscByContract/{a}"), "brc20_getInscriptionIdByContractAddress", json!([a]));
        q(inst, &mut o, format!("txpoolFrom/{a}"), "txpool_contentFrom", json!([a]));
    }
    for (a, slots) in &uni.slots {
        for s in slots {
            q(inst, &mut o, format!("storage/{a}/{s}"), "eth_getStorageAt", json!([a, s]));
        }
    }
    q(inst, &mut o, "txpool".into(), "txpool_content", json!([]));
    let mut from = uni.from_height;
    loop {
        let to = from + 5;
        q(
            inst,
            &mut o,
            format!("logs/{from}-{to}"),
            "eth_getLogs",
            json!([{"fromBlock": format!("0x{:x}", from), "toBlock": format!("0x{:x}", to)}]),
        );
        if to >= uni.max_height + 1 {
            break;
        }
        from += 3;
    }
    if depth == Depth::Full {
        for t in &uni.tickers {
            for i in 0..N_PK {
                q(inst, &mut o, format!("balance/{i}/{t}"), "brc20_balance", json!({"pkscript": pkscript(i), "ticker": t}));
            }
        }
    }
    o
}

/// the same queries as `observe`, as explicit (method, params) pairs
pub fn queries(uni: &Universe) -> Vec<(String, Value)> {
    struct Rec(Vec<(String, Value)>);
    let mut out = vec![];
    let mut push = |m: &str, p: Value| out.push((m.to_string(), p));
    push("eth_blockNumber", json!([]));
    for h in 0..=uni.max_height + 1 {
        let hx = format!("0x{:x}", h);
        push("eth_getBlockByNumber", json!([hx, true]));
        push("eth_getBlockTransactionCountByNumber", json!([hx]));
        push("debug_getRawHeader", json!([hx]));
        push("debug_getRawBlock", json!([hx]));
        push("debug_getRawReceipts", json!([hx]));
        push("debug_getBlockTraceString", json!([hx]));
        push("debug_getBlockTraceHash", json!([hx]));
    }
    for bh in &uni.block_hashes {
        if !bh.is_empty() {
            push("eth_getBlockByHash", json!([bh, false]));
        }
    }
    for th in &uni.tx_hashes {
        push("eth_getTransactionByHash", json!([th]));
        push("eth_getTransactionReceipt", json!([th]));
        push("debug_traceTransaction", json!([th]));
    }
    for a in &uni.addresses {
        push("eth_getTransactionCount", json!([a, "latest"]));
        push("eth_getCode", json!([a]));
        push("brc20_getInscriptionIdByContractAddress", json!([a]));
    }
    for (a, slots) in &uni.slots {
        for s in slots {
            push("eth_getStorageAt", json!([a, s]));
        }
    }
    push("txpool_content", json!([]));
    let mut from = 0u64;
    loop {
        push("eth_getLogs", json!([{"fromBlock": format!("0x{:x}", from), "toBlock": format!("0x{:x}", from + 5)}]));
        if from + 5 >= uni.max_height + 1 {
            break;
        }
        from += 3;
    }
    for t in &uni.tickers {
        for i in 0..N_PK {
            push("brc20_balance", json!({"pkscript": pkscript(i), "ticker": t}));
        }
    }
    let _ = Rec(vec![]);
    out
}

/// keys whose values differ (or exist on one side only), at most `limit`
pub fn diff(a: &Obs, b: &Obs, limit: usize) -> Vec<(String, Value, Value)> {
    let mut out = vec![];
    let mut keys: Vec<&String> = a.keys().chain(b.keys()).collect();
    keys.sort();
    keys.dedup();
    for k in keys {
        let va = a.get(k).cloned().unwrap_or(Value::Null);
        let vb = b.get(k).cloned().unwrap_or(Value::Null);
        if va != vb {
            out.push((k.clone(), va, vb));
            if out.len() >= limit {
                break;
            }
        }
    }
    out
}

/// query kind = key up to the first '/'
pub fn kind_of(key: &str) -> String {
    key.split('/').next().unwrap_or(key).to_string()
}

pub fn digest(o: &Obs) -> String {
    use sha2::{Digest, Sha256};
    let mut h = Sha256::new();
    for (k, v) in o {
        h.update(k.as_bytes());
        h.update(b"=");
        h.update(v.to_string().as_bytes());
        h.update(b"\n");
    }
    hex::encode(h.finalize())
}

pub fn resp_digest(r: &Resp) -> String {
    use sha2::{Digest, Sha256};
    let mut h = Sha256::new();
    h.update(r.to_value().to_string().as_bytes());
    hex::encode(&h.finalize()[..8])
}
