//! Batch orchestration: worker processes, merge by run index, determinism sample, known findings,
//! minimisation, replay files, evidence.
#![allow(dead_code)]
use crate::rng::run_seed;
use crate::world::Stats;
use serde_json::{json, Value};
use sha2::{Digest, Sha256};
use std::collections::{BTreeMap, BTreeSet};
use std::io::{BufRead, BufReader, Write};
use std::process::{Command, Stdio};
use std::time::{Duration, Instant};

#[derive(Clone, Copy, PartialEq, Debug)]
pub enum Tier {
    Quick,
    Thorough,
}
impl Tier {
    pub fn name(&self) -> &'static str {
        match self {
            Tier::Quick => "quick",
            Tier::Thorough => "thorough",
        }
    }
    pub fn parse(s: &str) -> Tier {
        if s == "thorough" {
            Tier::Thorough
        } else {
            Tier::Quick
        }
    }
}

#[derive(Clone, Debug)]
pub struct Violation {
    /// violation class: property oracle + first differing query kind etc. Minimisation keeps this fixed.
    pub class: String,
    /// human-readable specifics (keys, values, call that failed)
    pub detail: Value,
}

impl Violation {
    pub fn new(class: impl Into<String>, detail: Value) -> Violation {
        Violation { class: class.into(), detail }
    }
    pub fn to_value(&self) -> Value {
        json!({"class": self.class, "detail": self.detail})
    }
    pub fn from_value(v: &Value) -> Option<Violation> {
        Some(Violation { class: v.get("class")?.as_str()?.to_string(), detail: v.get("detail").cloned().unwrap_or(Value::Null) })
    }
}

#[derive(Clone, Debug, Default)]
pub struct RunOut {
    /// sha256 of what was executed (distinctness measure)
    pub digest: String,
    /// at least one of the property's fault / edge kinds actually fired
    pub nontrivial: bool,
    pub stats: Stats,
    pub sim_ms: u64,
    pub violation: Option<Violation>,
    /// digest of the full call/response transcript (determinism check)
    pub transcript: String,
    /// extra distinct-state measure (e.g. interleavings), merged as a set
    pub states: Vec<String>,
}

pub trait Prop: Sync {
    fn id(&self) -> &'static str;
    fn level(&self) -> &'static str {
        "exploration"
    }
    fn runs(&self, tier: Tier) -> u64;
    /// the case for run seed `seed` (JSON so that it can be written to a replay file verbatim)
    fn generate(&self, seed: u64, tier: Tier) -> Value;
    /// the case of run `i` of a batch (default: a function of the run seed only)
    fn case_for_run(&self, _i: u64, seed: u64, tier: Tier) -> Value {
        self.generate(seed, tier)
    }
    /// which merged event counter is the number of evaluated cases (default: runs)
    fn evaluations_from(&self) -> Option<&'static str> {
        None
    }
    /// pure function of the case and the code under test
    fn execute(&self, case: &Value) -> RunOut;
    /// smaller variants of a failing case, most aggressive first
    fn shrink(&self, case: &Value) -> Vec<Value> {
        shrink_ops(case)
    }
    fn rule(&self) -> String;
    fn assumptions(&self) -> Vec<String> {
        vec![]
    }
    fn components(&self) -> Value {
        json!({
            "real": ["JSON-RPC parameter decoding and handlers (in-process method table)", "engine", "revm + inspectors",
                     "precompiles", "RocksDB (tmpfs)", "encode/decode", "controller bytecode", "tokio timers (paused clock)"],
            "stub": ["Bitcoin Core node (unreachable)", "HashMap hasher (seeded)", "HTTP transport (bypassed)"]
        })
    }
    /// wall-clock budget for the batch (s); workers stop starting runs after it
    fn budget_s(&self, tier: Tier) -> u64 {
        match tier {
            Tier::Quick => 240,
            Tier::Thorough => 1500,
        }
    }
    fn exhaustive(&self) -> bool {
        false
    }
    /// a worker that produces no output for this long while inside a run is killed
    fn hang_timeout_s(&self) -> u64 {
        600
    }
    /// a run that hangs or kills its worker process is a violation of the property (C09, C11) rather
    /// than a harness error; it is confirmed by re-running the case alone before it is reported
    fn lost_run_is_violation(&self) -> bool {
        false
    }
    /// a run that does not replay to the same transcript in a second OS process is a violation of the
    /// property itself (C02) rather than a harness error
    fn nondeterminism_is_violation(&self) -> bool {
        false
    }
    /// narrow a failing case using what the violation says (before minimisation)
    fn refine_case(&self, case: &Value, _v: &Violation) -> Value {
        case.clone()
    }
    /// checks that run once per batch in the orchestrating process (e.g. pinned golden digests);
    /// returns (replayable case, violation)
    fn batch_prelude(&self) -> Option<(Value, Violation)> {
        None
    }
}

pub fn sha_hex(s: &str) -> String {
    let mut h = Sha256::new();
    h.update(s.as_bytes());
    hex::encode(h.finalize())
}

/// generic shrinker for cases of the form {"ops":[...], ...}: drop chunks of ops, then single ops,
/// then transactions inside blocks.
pub fn shrink_ops(case: &Value) -> Vec<Value> {
    let mut out = vec![];
    let Some(ops) = case.get("ops").and_then(|o| o.as_array()) else {
        return out;
    };
    let n = ops.len();
    let mut chunk = n / 2;
    while chunk >= 1 {
        let mut start = 0;
        while start < n {
            let end = (start + chunk).min(n);
            let mut c = case.clone();
            let kept: Vec<Value> = ops.iter().enumerate().filter(|(i, _)| *i < start || *i >= end).map(|(_, v)| v.clone()).collect();
            if !kept.is_empty() {
                c["ops"] = Value::Array(kept);
                out.push(c);
            }
            start += chunk;
        }
        if chunk == 1 {
            break;
        }
        chunk /= 2;
    }
    // drop single transactions inside blocks
    for (i, op) in ops.iter().enumerate() {
        if let Some(txs) = op.get("Block").and_then(|b| b.get("txs")).and_then(|t| t.as_array()) {
            for j in 0..txs.len() {
                let mut c = case.clone();
                let mut t2 = txs.clone();
                t2.remove(j);
                c["ops"][i]["Block"]["txs"] = Value::Array(t2);
                out.push(c);
            }
        }
    }
    out
}

pub fn minimise(p: &dyn Prop, case: &Value, class: &str, budget: Duration) -> (Value, u64) {
    let t0 = Instant::now();
    let mut best = case.clone();
    let mut tries = 0u64;
    'outer: loop {
        if t0.elapsed() > budget {
            break;
        }
        for cand in p.shrink(&best) {
            if t0.elapsed() > budget {
                break 'outer;
            }
            tries += 1;
            let out = p.execute(&cand);
            if out.violation.as_ref().map(|v| v.class.as_str()) == Some(class) {
                best = cand;
                continue 'outer;
            }
        }
        break;
    }
    (best, tries)
}

// ------------------------------------------------------------------------------------------------
// known findings

#[derive(Clone, Debug)]
pub struct KnownFinding {
    pub property: String,
    /// substring that must occur in the violation class
    pub class_contains: String,
    /// substring that must occur in the serialised violation detail ("" = any)
    pub detail_contains: String,
    pub what: String,
}

pub fn load_known(path: &str) -> Vec<KnownFinding> {
    let Ok(s) = std::fs::read_to_string(path) else {
        return vec![];
    };
    let Ok(v) = serde_json::from_str::<Value>(&s) else {
        eprintln!("HARNESS-ERROR: cannot parse {path}");
        std::process::exit(2);
    };
    let mut out = vec![];
    for e in v.get("known").and_then(|k| k.as_array()).cloned().unwrap_or_default() {
        out.push(KnownFinding {
            property: e["property"].as_str().unwrap_or("").to_string(),
            class_contains: e["class_contains"].as_str().unwrap_or("").to_string(),
            detail_contains: e["detail_contains"].as_str().unwrap_or("").to_string(),
            what: e["what"].as_str().unwrap_or("").to_string(),
        });
    }
    out
}

pub fn match_known<'a>(known: &'a [KnownFinding], prop: &str, v: &Violation) -> Option<&'a KnownFinding> {
    let d = v.detail.to_string();
    known.iter().find(|k| {
        k.property == prop && v.class.contains(&k.class_contains) && (k.detail_contains.is_empty() || d.contains(&k.detail_contains))
    })
}

// ------------------------------------------------------------------------------------------------

pub fn verif_root() -> String {
    std::env::var("VERIF_ROOT").unwrap_or_else(|_| "/verif".to_string())
}

fn run_line(i: u64, seed: u64, out: &RunOut, case: Option<&Value>) -> Value {
    json!({
        "i": i, "seed": seed, "digest": out.digest, "nontrivial": out.nontrivial, "stats": out.stats.counts,
        "sim_ms": out.sim_ms, "violation": out.violation.as_ref().map(|v| v.to_value()),
        "transcript": out.transcript, "states": out.states, "case": case,
    })
}

pub fn read_marker(pid: u32) -> Value {
    std::fs::read_to_string(format!("/dev/shm/brc20-verif-{}/current", pid))
        .ok()
        .and_then(|s| serde_json::from_str(&s).ok())
        .unwrap_or(Value::Null)
}

pub enum ChildOutcome {
    Finished(i32),
    TimedOut,
    Died,
}

pub fn run_with_timeout(exe: &std::path::Path, args: &[&str], timeout: Duration) -> ChildOutcome {
    let Ok(mut c) = Command::new(exe).args(args).stdout(Stdio::null()).stderr(Stdio::null()).spawn() else {
        return ChildOutcome::Died;
    };
    let t0 = Instant::now();
    loop {
        match c.try_wait() {
            Ok(Some(st)) => {
                let _ = std::fs::remove_dir_all(format!("/dev/shm/brc20-verif-{}", c.id()));
                return match st.code() {
                    Some(code) => ChildOutcome::Finished(code),
                    None => ChildOutcome::Died,
                };
            }
            Ok(None) => {
                if t0.elapsed() > timeout {
                    let _ = c.kill();
                    let _ = c.wait();
                    let _ = std::fs::remove_dir_all(format!("/dev/shm/brc20-verif-{}", c.id()));
                    return ChildOutcome::TimedOut;
                }
                std::thread::sleep(Duration::from_millis(100));
            }
            Err(_) => return ChildOutcome::Died,
        }
    }
}

/// `sim worker <id> <tier> <root> <rank> <nworkers> <n> <budget_s>`
pub fn worker_main(p: &dyn Prop, tier: Tier, root: u64, rank: u64, nworkers: u64, n: u64, budget_s: u64, first: u64) {
    let t0 = Instant::now();
    let stdout = std::io::stdout();
    let mut i = first.max(rank);
    while i < n {
        if t0.elapsed().as_secs() > budget_s {
            break;
        }
        let seed = run_seed(root, p.id(), i);
        {
            let mut h = stdout.lock();
            let _ = writeln!(h, "{}", json!({"start": i}));
            let _ = h.flush();
        }
        let case = p.case_for_run(i, seed, tier);
        let out = p.execute(&case);
        // cases are shipped for samples (first runs) and for violations
        let ship = i < 2 || out.violation.is_some();
        let line = run_line(i, seed, &out, if ship { Some(&case) } else { None });
        let mut h = stdout.lock();
        let _ = writeln!(h, "{}", line);
        let _ = h.flush();
        i += nworkers;
    }
    crate::inst::cleanup_scratch();
}

pub struct CheckResult {
    pub exit: i32,
}

pub fn check_main(p: &dyn Prop, tier: Tier) -> i32 {
    let t0 = Instant::now();
    let root: u64 = std::env::var("VERIF_SEED").ok().and_then(|s| s.parse().ok()).unwrap_or(1);
    let n = p.runs(tier);
    let max_workers: u64 = std::env::var("VERIF_WORKERS").ok().and_then(|s| s.parse().ok()).unwrap_or(16);
    let nworkers = max_workers.min(n).max(1);
    let budget = p.budget_s(tier);
    println!("[{}] tier={} seed={} runs={} workers={} budget={}s", p.id(), tier.name(), root, n, nworkers, budget);
    let exe = std::env::current_exe().expect("exe");
    let spawn_worker = |rank: u64, first: u64, budget_left: u64| -> std::process::Child {
        Command::new(&exe)
            .args([
                "worker",
                p.id(),
                tier.name(),
                &root.to_string(),
                &rank.to_string(),
                &nworkers.to_string(),
                &n.to_string(),
                &budget_left.to_string(),
                &first.to_string(),
            ])
            .stdout(Stdio::piped())
            .stderr(Stdio::inherit())
            .spawn()
            .expect("spawn worker")
    };
    let mut children = vec![];
    for rank in 0..nworkers {
        children.push(spawn_worker(rank, rank, budget));
    }
    let mut lines: BTreeMap<u64, Value> = BTreeMap::new();
    // events from the workers: (rank, generation, Some(line)) per output line, (.., None) at end of stream
    let (txe, rxe) = std::sync::mpsc::channel::<(usize, u32, Option<Value>)>();
    let attach = |rank: usize, generation: u32, c: &mut std::process::Child, txe: std::sync::mpsc::Sender<(usize, u32, Option<Value>)>| {
        let so = c.stdout.take();
        std::thread::spawn(move || {
            if let Some(so) = so {
                for l in BufReader::new(so).lines().map_while(Result::ok) {
                    if let Ok(v) = serde_json::from_str::<Value>(&l) {
                        let _ = txe.send((rank, generation, Some(v)));
                    }
                }
            }
            let _ = txe.send((rank, generation, None));
        });
    };
    let mut procs: Vec<std::process::Child> = vec![];
    for (rank, mut c) in children.into_iter().enumerate() {
        attach(rank, 0, &mut c, txe.clone());
        procs.push(c);
    }
    let hang_timeout = Duration::from_secs(p.hang_timeout_s());
    let mut generation: Vec<u32> = vec![0; procs.len()];
    let mut current: Vec<Option<u64>> = vec![None; procs.len()];
    let mut last_seen: Vec<Instant> = vec![Instant::now(); procs.len()];
    let mut done: Vec<bool> = vec![false; procs.len()];
    // runs that never returned: (run index, kind, detail)
    let mut lost: Vec<(u64, &'static str, Value)> = vec![];
    // a lost worker is replaced by one that continues after the lost run
    macro_rules! respawn {
        ($rank:expr, $after:expr) => {{
            let elapsed = t0.elapsed().as_secs();
            if lost.len() < 8 && elapsed < budget {
                let mut c = spawn_worker($rank as u64, $after + nworkers, budget - elapsed);
                generation[$rank] += 1;
                attach($rank, generation[$rank], &mut c, txe.clone());
                procs[$rank] = c;
                current[$rank] = None;
                last_seen[$rank] = Instant::now();
                done[$rank] = false;
            }
        }};
    }
    while done.iter().any(|d| !*d) {
        match rxe.recv_timeout(Duration::from_millis(500)) {
            Ok((rank, g, _)) if g != generation[rank] => {}
            Ok((rank, _, Some(v))) => {
                last_seen[rank] = Instant::now();
                if let Some(i) = v.get("start").and_then(|x| x.as_u64()) {
                    current[rank] = Some(i);
                } else {
                    current[rank] = None;
                    lines.insert(v["i"].as_u64().unwrap_or(0), v);
                }
            }
            Ok((rank, _, None)) => {
                if done[rank] {
                    continue;
                }
                done[rank] = true;
                let status = procs[rank].wait().ok();
                if !status.map(|s| s.success()).unwrap_or(false) {
                    let _ = std::fs::remove_dir_all(format!("/dev/shm/brc20-verif-{}", procs[rank].id()));
                    if let Some(i) = current[rank] {
                        let marker = read_marker(procs[rank].id());
                        lost.push((i, "process-died", json!({"exit": format!("{:?}", status), "last_request": marker})));
                        respawn!(rank, i);
                    } else {
                        lost.push((u64::MAX, "worker-exit", json!({"exit": format!("{:?}", status)})));
                    }
                }
            }
            Err(std::sync::mpsc::RecvTimeoutError::Timeout) => {}
            Err(std::sync::mpsc::RecvTimeoutError::Disconnected) => break,
        }
        for rank in 0..procs.len() {
            if !done[rank] && current[rank].is_some() && last_seen[rank].elapsed() > hang_timeout {
                let marker = read_marker(procs[rank].id());
                let _ = procs[rank].kill();
                let _ = procs[rank].wait();
                done[rank] = true;
                let i = current[rank].unwrap();
                lost.push((i, "no-progress", json!({"seconds": hang_timeout.as_secs(), "last_request": marker})));
                let _ = std::fs::remove_dir_all(format!("/dev/shm/brc20-verif-{}", procs[rank].id()));
                respawn!(rank, i);
            }
        }
    }
    drop(txe);
    let mut lost_violations: Vec<Value> = vec![];
    for (n_lost, (i, kind, detail)) in lost.iter().enumerate() {
        if n_lost >= 2 && *i != u64::MAX && p.lost_run_is_violation() {
            eprintln!("note: run {i} was also lost ({kind}); only the first two lost runs are confirmed and reported");
            continue;
        }
        if *i == u64::MAX || !p.lost_run_is_violation() {
            eprintln!("HARNESS-ERROR: a worker was lost ({kind}): {detail}");
            return 2;
        }
        let seed = run_seed(root, p.id(), *i);
        let case = p.case_for_run(*i, seed, tier);
        // confirmation: the same case alone, in a fresh process, with a timeout
        let tmp = format!("{}/replays/{}-{}-suspect.json", verif_root(), p.id(), seed);
        let _ = std::fs::create_dir_all(format!("{}/replays", verif_root()));
        let class = if *kind == "no-progress" { "request-hangs" } else { "server-process-died" };
        let viol = Violation::new(class, detail.clone());
        let _ = std::fs::write(&tmp, serde_json::to_string_pretty(&json!({"property": p.id(), "seed": seed, "violation": viol.to_value(), "case": case})).unwrap());
        let confirmed = run_with_timeout(&exe, &["replay-inner", &tmp], hang_timeout + Duration::from_secs(30));
        let _ = std::fs::remove_file(&tmp);
        match confirmed {
            ChildOutcome::TimedOut | ChildOutcome::Died => {
                lost_violations.push(json!({"i": i, "seed": seed, "digest": sha_hex(&case.to_string()), "nontrivial": true, "stats": {}, "sim_ms": 0,
                    "violation": viol.to_value(), "transcript": "", "states": [], "case": case}));
            }
            ChildOutcome::Finished(_) => {
                eprintln!("note: run {i} was lost ({kind}) but completed when re-run alone; not reported");
            }
        }
    }
    for v in lost_violations {
        lines.insert(v["i"].as_u64().unwrap_or(0), v);
    }
    if lines.is_empty() {
        eprintln!("HARNESS-ERROR: no runs completed");
        return 2;
    }

    // merge
    let mut stats = Stats::default();
    let mut digests: BTreeSet<String> = BTreeSet::new();
    let mut nontrivial_digests: BTreeSet<String> = BTreeSet::new();
    let mut states: BTreeSet<String> = BTreeSet::new();
    let mut sim_ms = 0u64;
    let mut samples = vec![];
    let mut violating: Vec<&Value> = vec![];
    for (_, v) in &lines {
        if let Some(m) = v["stats"].as_object() {
            for (k, c) in m {
                stats.add(k, c.as_u64().unwrap_or(0));
            }
        }
        let d = v["digest"].as_str().unwrap_or("").to_string();
        if v["nontrivial"].as_bool().unwrap_or(false) {
            nontrivial_digests.insert(d.clone());
        }
        digests.insert(d);
        for s in v["states"].as_array().cloned().unwrap_or_default() {
            if let Some(s) = s.as_str() {
                states.insert(s.to_string());
            }
        }
        sim_ms += v["sim_ms"].as_u64().unwrap_or(0);
        if samples.len() < 2 && !v["case"].is_null() {
            samples.push(v["case"].clone());
        }
        if !v["violation"].is_null() {
            violating.push(v);
        }
    }

    // determinism sample: re-execute ~2% (at least 2) of the runs in this (different) process
    let total = lines.len() as u64;
    let safe = |i: &u64| lines[i]["transcript"].as_str().map(|t| !t.is_empty()).unwrap_or(false);
    let mut recheck: Vec<u64> = lines.keys().cloned().filter(|i| i % 50 == 0 && safe(i)).collect();
    if recheck.len() < 2 {
        recheck = lines.keys().cloned().filter(|i| safe(i)).take(2).collect();
    }
    let mut nondeterministic = vec![];
    if std::env::var("VERIF_NO_RECHECK").is_err() {
        for i in recheck.iter().take(12) {
            let seed = run_seed(root, p.id(), *i);
            let case = p.case_for_run(*i, seed, tier);
            let out = p.execute(&case);
            let want = lines[i]["transcript"].as_str().unwrap_or("");
            if out.transcript != want {
                nondeterministic.push(*i);
            }
        }
    }
    let mut prelude_violation: Option<(Value, Violation)> = p.batch_prelude();
    if !nondeterministic.is_empty() && p.nondeterminism_is_violation() && prelude_violation.is_none() {
        let i = nondeterministic[0];
        let seed = run_seed(root, p.id(), i);
        prelude_violation = Some((
            p.case_for_run(i, seed, tier),
            Violation::new("cross-process-divergence", json!({"run": i, "seed": seed, "note": "the same call history produced a different transcript in a second OS process"})),
        ));
        nondeterministic.clear();
    }
    if !nondeterministic.is_empty() {
        eprintln!("HARNESS-ERROR: runs {:?} did not replay to the same transcript (nondeterminism in the simulator)", nondeterministic);
        write_evidence(p, tier, root, &lines, &stats, &digests, &nontrivial_digests, &states, sim_ms, &samples, 0, t0, json!({"harness_error": "nondeterministic replay"}));
        return 2;
    }

    // violations
    let known = load_known(&format!("{}/known_findings.json", verif_root()));
    let mut known_hit: BTreeMap<String, u64> = BTreeMap::new();
    let mut new_violations: Vec<&Value> = vec![];
    for v in &violating {
        let viol = Violation::from_value(&v["violation"]).unwrap();
        if let Some(k) = match_known(&known, p.id(), &viol) {
            *known_hit.entry(k.what.clone()).or_insert(0) += 1;
        } else {
            new_violations.push(v);
        }
    }
    let mut class_hist: BTreeMap<String, u64> = BTreeMap::new();
    for v in &new_violations {
        *class_hist.entry(v["violation"]["class"].as_str().unwrap_or("").to_string()).or_insert(0) += 1;
    }
    for (c, n) in &class_hist {
        println!("violation-class {c}: {n} runs (e.g. seed {})", new_violations.iter().find(|v| v["violation"]["class"].as_str() == Some(c)).map(|v| v["seed"].as_u64().unwrap_or(0)).unwrap_or(0));
    }
    for (what, c) in &known_hit {
        println!("KNOWN-FINDING: property={} {} (hit in {} runs)", p.id(), what, c);
    }
    let mut exit = 0;
    let mut extra = json!({});
    if let Some((case, viol)) = &prelude_violation {
        if let Some(k) = match_known(&known, p.id(), viol) {
            println!("KNOWN-FINDING: property={} {}", p.id(), k.what);
        } else {
            let path = format!("{}/replays/{}-prelude.json", verif_root(), p.id());
            let _ = std::fs::create_dir_all(format!("{}/replays", verif_root()));
            let replay = json!({"property": p.id(), "seed": root, "tier": tier.name(), "violation": viol.to_value(), "case": case});
            std::fs::write(&path, serde_json::to_string_pretty(&replay).unwrap()).expect("write replay");
            println!("violation class: {}", viol.class);
            println!("violation detail: {}", viol.detail);
            println!("VIOLATION property={} replay={}", p.id(), path);
            extra = json!({"first_violation": viol.to_value()});
            exit = 1;
        }
    }
    if exit == 1 {
        // reported above
    } else if let Some(first) = new_violations.first() {
        let viol = Violation::from_value(&first["violation"]).unwrap();
        let seed = first["seed"].as_u64().unwrap_or(0);
        let case = if first["case"].is_null() { p.case_for_run(first["i"].as_u64().unwrap_or(0), seed, tier) } else { first["case"].clone() };
        let dangerous = viol.class == "request-hangs" || viol.class == "server-process-died";
        // the narrowed case is kept only if it still fails the same way
        let refined = p.refine_case(&case, &viol);
        let case = if refined == case || dangerous || p.execute(&refined).violation.map_or(false, |v| v.class == viol.class) { refined } else { case };
        let budget = Duration::from_secs(if tier == Tier::Quick { 60 } else { 600 });
        let (min_case, tries) = if dangerous { (case.clone(), 0) } else { minimise(p, &case, &viol.class, budget) };
        let final_viol = if dangerous { viol.clone() } else { p.execute(&min_case).violation.clone().unwrap_or(viol.clone()) };
        let path = format!("{}/replays/{}-{}.json", verif_root(), p.id(), seed);
        let _ = std::fs::create_dir_all(format!("{}/replays", verif_root()));
        let replay = json!({
            "property": p.id(), "seed": seed, "root_seed": root, "tier": tier.name(),
            "violation": final_viol.to_value(), "original_violation": viol.to_value(),
            "minimise_tries": tries, "case": min_case, "original_case": case,
        });
        std::fs::write(&path, serde_json::to_string_pretty(&replay).unwrap()).expect("write replay");
        // replay in a fresh process must fail the same way
        let st = Command::new(&exe).args(["replay", &path]).stdout(Stdio::piped()).stderr(Stdio::inherit()).output();
        let reproduced = st.map(|o| String::from_utf8_lossy(&o.stdout).contains("VIOLATION")).unwrap_or(false);
        println!("violation class: {}", final_viol.class);
        println!("violation detail: {}", final_viol.detail);
        println!("distinct violating runs: {} (new) ; replay reproduced in fresh process: {}", new_violations.len(), reproduced);
        println!("VIOLATION property={} replay={}", p.id(), path);
        extra = json!({"first_violation": final_viol.to_value(), "replay_reproduced": reproduced});
        exit = 1;
    }
    let nviol = new_violations.len() as u64 + if exit == 1 && new_violations.is_empty() { 1 } else { 0 };
    // one digest over the transcripts of all runs in index order: two batches of the same seed and tree must agree on it,
    // whatever the number of worker processes (tools/determinism_sweep.sh)
    let batch_digest = sha_hex(&lines.values().map(|l| l["transcript"].as_str().unwrap_or("")).collect::<Vec<_>>().join("|"));
    println!("[{}] batch transcript digest {}", p.id(), &batch_digest[..16]);
    write_evidence(p, tier, root, &lines, &stats, &digests, &nontrivial_digests, &states, sim_ms, &samples, nviol, t0, json!({"known_findings_hit": known_hit, "determinism_rechecked": recheck.len().min(12), "total_runs": total, "batch_transcript_digest": batch_digest, "extra": extra}));
    println!(
        "[{}] runs={} distinct={} nontrivial_distinct={} violations={} known={} wall={:.1}s",
        p.id(),
        total,
        digests.len(),
        nontrivial_digests.len(),
        new_violations.len(),
        known_hit.values().sum::<u64>(),
        t0.elapsed().as_secs_f64()
    );
    exit
}

#[allow(clippy::too_many_arguments)]
fn write_evidence(
    p: &dyn Prop,
    tier: Tier,
    root: u64,
    lines: &BTreeMap<u64, Value>,
    stats: &Stats,
    digests: &BTreeSet<String>,
    nontrivial: &BTreeSet<String>,
    states: &BTreeSet<String>,
    sim_ms: u64,
    samples: &[Value],
    violations: u64,
    t0: Instant,
    extra: Value,
) {
    let wall = t0.elapsed().as_secs_f64();
    let runs = lines.len() as u64;
    let faults: BTreeMap<&String, &u64> = stats.counts.iter().filter(|(k, _)| !k.starts_with("probe_")).collect();
    let probes: BTreeMap<&String, &u64> = stats.counts.iter().filter(|(k, _)| k.starts_with("probe_")).collect();
    let evaluations = p.evaluations_from().and_then(|k| stats.counts.get(k).cloned()).filter(|n| *n > 0).unwrap_or(runs);
    let mut cov = json!({
        "evaluations": evaluations,
        "runs": runs,
        "distinct_nontrivial": nontrivial.len(),
        "distinct_cases": digests.len(),
        "rule": p.rule(),
        "samples": samples,
        "runs_per_hour": if wall > 0.0 { (runs as f64 / wall * 3600.0) as u64 } else { 0 },
        "simulated_time_ms": sim_ms,
        "events_by_kind": faults,
        "reach_probes": probes,
        "distinct_states_or_interleavings": states.len(),
        "components": p.components(),
        "exhaustive": p.exhaustive(),
        "details": extra,
    });
    if samples.is_empty() {
        cov["samples"] = json!(["(no sample shipped)"]);
    }
    let ev = json!({
        "property_id": p.id(),
        "tier": tier.name(),
        "seed": root,
        "level": p.level(),
        "coverage": cov,
        "assumptions": p.assumptions(),
        "wall_s": wall,
        "violations": violations,
    });
    let dir = format!("{}/evidence", verif_root());
    let _ = std::fs::create_dir_all(&dir);
    let path = format!("{}/{}.json", dir, p.id());
    std::fs::write(&path, serde_json::to_string_pretty(&ev).unwrap()).expect("write evidence");
}

/// `sim replay <path>`: execute the explicit case in the file; exit 1 + VIOLATION if it fails the same way
pub fn replay_main(props: &[&dyn Prop], path: &str, inner: bool) -> i32 {
    let Ok(s) = std::fs::read_to_string(path) else {
        eprintln!("cannot read {path}");
        return 2;
    };
    let v: Value = serde_json::from_str(&s).expect("replay json");
    let id = v["property"].as_str().unwrap_or("");
    let Some(p) = props.iter().find(|p| p.id() == id) else {
        eprintln!("unknown property {id}");
        return 2;
    };
    if p.lost_run_is_violation() && !inner {
        // the case may hang or kill the process: execute it in a child with a timeout
        let exe = std::env::current_exe().expect("exe");
        return match run_with_timeout(&exe, &["replay-inner", path], Duration::from_secs(p.hang_timeout_s() + 30)) {
            ChildOutcome::TimedOut => {
                println!("replayed: the case makes no progress within {} s", p.hang_timeout_s());
                println!("VIOLATION property={} replay={}", id, path);
                1
            }
            ChildOutcome::Died => {
                println!("replayed: the case kills the process");
                println!("VIOLATION property={} replay={}", id, path);
                1
            }
            ChildOutcome::Finished(0) => {
                println!("replay of {path}: no violation (property holds on this case)");
                0
            }
            ChildOutcome::Finished(_) => {
                println!("VIOLATION property={} replay={}", id, path);
                1
            }
        };
    }
    let out = p.execute(&v["case"]);
    let want = v["violation"]["class"].as_str().unwrap_or("");
    match out.violation {
        Some(viol) => {
            println!("replayed: class={} detail={}", viol.class, viol.detail);
            if viol.class == want {
                println!("VIOLATION property={} replay={}", id, path);
                1
            } else {
                println!("different violation class than recorded ({want})");
                println!("VIOLATION property={} replay={}", id, path);
                1
            }
        }
        None => {
            println!("replay of {path}: no violation (property holds on this case)");
            0
        }
    }
}
