//! Tiny EVM assembler (no solc in the sandbox): mnemonics, labels (PUSH2-sized), auto-sized PUSH.
#![allow(dead_code)]
use std::collections::BTreeMap;

pub mod op {
    pub const STOP: u8 = 0x00;
    pub const ADD: u8 = 0x01;
    pub const MUL: u8 = 0x02;
    pub const SUB: u8 = 0x03;
    pub const DIV: u8 = 0x04;
    pub const LT: u8 = 0x10;
    pub const GT: u8 = 0x11;
    pub const EQ: u8 = 0x14;
    pub const ISZERO: u8 = 0x15;
    pub const AND: u8 = 0x16;
    pub const OR: u8 = 0x17;
    pub const SHL: u8 = 0x1b;
    pub const SHR: u8 = 0x1c;
    pub const KECCAK256: u8 = 0x20;
    pub const ADDRESS: u8 = 0x30;
    pub const ORIGIN: u8 = 0x32;
    pub const CALLER: u8 = 0x33;
    pub const CALLVALUE: u8 = 0x34;
    pub const CALLDATALOAD: u8 = 0x35;
    pub const CALLDATASIZE: u8 = 0x36;
    pub const CALLDATACOPY: u8 = 0x37;
    pub const CODESIZE: u8 = 0x38;
    pub const CODECOPY: u8 = 0x39;
    pub const GASPRICE: u8 = 0x3a;
    pub const RETURNDATASIZE: u8 = 0x3d;
    pub const RETURNDATACOPY: u8 = 0x3e;
    pub const BLOCKHASH: u8 = 0x40;
    pub const COINBASE: u8 = 0x41;
    pub const TIMESTAMP: u8 = 0x42;
    pub const NUMBER: u8 = 0x43;
    pub const PREVRANDAO: u8 = 0x44;
    pub const GASLIMIT: u8 = 0x45;
    pub const CHAINID: u8 = 0x46;
    pub const SELFBALANCE: u8 = 0x47;
    pub const BASEFEE: u8 = 0x48;
    pub const POP: u8 = 0x50;
    pub const MLOAD: u8 = 0x51;
    pub const MSTORE: u8 = 0x52;
    pub const MSTORE8: u8 = 0x53;
    pub const SLOAD: u8 = 0x54;
    pub const SSTORE: u8 = 0x55;
    pub const JUMP: u8 = 0x56;
    pub const JUMPI: u8 = 0x57;
    pub const GAS: u8 = 0x5a;
    pub const JUMPDEST: u8 = 0x5b;
    pub const PUSH0: u8 = 0x5f;
    pub const DUP1: u8 = 0x80;
    pub const DUP2: u8 = 0x81;
    pub const DUP3: u8 = 0x82;
    pub const DUP4: u8 = 0x83;
    pub const DUP5: u8 = 0x84;
    pub const SWAP1: u8 = 0x90;
    pub const SWAP2: u8 = 0x91;
    pub const SWAP3: u8 = 0x92;
    pub const LOG0: u8 = 0xa0;
    pub const CREATE: u8 = 0xf0;
    pub const CALL: u8 = 0xf1;
    pub const RETURN: u8 = 0xf3;
    pub const DELEGATECALL: u8 = 0xf4;
    pub const CREATE2: u8 = 0xf5;
    pub const STATICCALL: u8 = 0xfa;
    pub const REVERT: u8 = 0xfd;
    pub const INVALID: u8 = 0xfe;
    pub const SELFDESTRUCT: u8 = 0xff;
}

#[derive(Default)]
pub struct Asm {
    code: Vec<u8>,
    labels: BTreeMap<String, usize>,
    fixups: Vec<(usize, String)>,
}

impl Asm {
    pub fn new() -> Self {
        Self::default()
    }
    pub fn op(&mut self, o: u8) -> &mut Self {
        self.code.push(o);
        self
    }
    pub fn ops(&mut self, os: &[u8]) -> &mut Self {
        self.code.extend_from_slice(os);
        self
    }
    /// smallest PUSH for the value (PUSH0 for zero)
    pub fn push(&mut self, v: u64) -> &mut Self {
        if v == 0 {
            return self.op(op::PUSH0);
        }
        let bytes = v.to_be_bytes();
        let skip = bytes.iter().take_while(|b| **b == 0).count();
        let n = 8 - skip;
        self.code.push(0x5f + n as u8);
        self.code.extend_from_slice(&bytes[skip..]);
        self
    }
    pub fn push_bytes(&mut self, b: &[u8]) -> &mut Self {
        assert!(!b.is_empty() && b.len() <= 32);
        self.code.push(0x5f + b.len() as u8);
        self.code.extend_from_slice(b);
        self
    }
    pub fn label(&mut self, name: &str) -> &mut Self {
        let at = self.code.len();
        assert!(self.labels.insert(name.to_string(), at).is_none(), "dup label {name}");
        self.op(op::JUMPDEST)
    }
    pub fn push_label(&mut self, name: &str) -> &mut Self {
        self.code.push(0x61);
        self.fixups.push((self.code.len(), name.to_string()));
        self.code.extend_from_slice(&[0, 0]);
        self
    }
    pub fn jump(&mut self, name: &str) -> &mut Self {
        self.push_label(name).op(op::JUMP)
    }
    pub fn jumpi(&mut self, name: &str) -> &mut Self {
        self.push_label(name).op(op::JUMPI)
    }
    pub fn finish(mut self) -> Vec<u8> {
        for (at, name) in &self.fixups {
            let target = *self.labels.get(name).unwrap_or_else(|| panic!("no label {name}"));
            self.code[*at] = (target >> 8) as u8;
            self.code[*at + 1] = target as u8;
        }
        self.code
    }
}

/// init code that returns `runtime`
pub fn initcode(runtime: &[u8]) -> Vec<u8> {
    // PUSH2 len, DUP1, PUSH2 off, PUSH0, CODECOPY, PUSH0, RETURN
    let mut a = Asm::new();
    let prologue_len = 3 + 1 + 3 + 1 + 1 + 1 + 1;
    a.code.push(0x61);
    a.code.extend_from_slice(&(runtime.len() as u16).to_be_bytes());
    a.op(op::DUP1);
    a.code.push(0x61);
    a.code.extend_from_slice(&(prologue_len as u16).to_be_bytes());
    a.op(op::PUSH0).op(op::CODECOPY).op(op::PUSH0).op(op::RETURN);
    let mut c = a.finish();
    assert_eq!(c.len(), prologue_len);
    c.extend_from_slice(runtime);
    c
}
