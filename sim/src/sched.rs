//! C11 scheduler (DESIGN Appendix B): real threads, parked at every SharedData acquire / release, released
//! one at a time by a seeded choice; the admission rule models std's writer-preferring futex RwLock.
#![allow(dead_code)]
use brc20_prog::verif::sync::{Mode, Scheduler};
use std::collections::BTreeMap;
use std::panic::Location;
use std::sync::{Condvar, Mutex};
use std::time::Duration;

thread_local! {
    static TID: std::cell::Cell<usize> = const { std::cell::Cell::new(usize::MAX) };
}

pub fn set_tid(t: usize) {
    TID.with(|c| c.set(t));
}
fn tid() -> usize {
    TID.with(|c| c.get())
}

#[derive(Clone, Debug, PartialEq)]
pub enum TState {
    NotStarted,
    Running,
    Wants { lock: usize, mode: Mode, site: String },
    AtYield,
    Done,
}

#[derive(Default, Clone, Debug)]
pub struct LockState {
    pub readers: Vec<usize>,
    pub writer: Option<usize>,
    pub waiting_writers: Vec<usize>,
    /// site at which each current holder acquired (for the report)
    pub held_at: BTreeMap<usize, Vec<String>>,
}

pub struct State {
    pub threads: Vec<TState>,
    pub locks: BTreeMap<usize, LockState>,
    pub running: Option<usize>,
    /// decisions taken so far: index into the sorted admissible set is not stable under replay, so the
    /// chosen thread id is recorded
    pub choices: Vec<usize>,
    pub replay: Option<Vec<usize>>,
    pub rng: crate::rng::Rng,
    pub trace: Vec<String>,
    pub deadlock: Option<serde_json::Value>,
    pub steps: u64,
    pub max_steps: u64,
    pub overflow: bool,
    pub probe_writer_queued_between: u64,
    pub held_pairs: std::collections::BTreeSet<String>,
    /// PCT-style scheduling (Burckhardt et al.): random thread priorities, the highest admissible one runs,
    /// at `change` decision indexes the thread that would run is demoted below everybody else
    pub pct: Option<(Vec<i64>, Vec<u64>)>,
}

pub struct Sched {
    pub st: Mutex<State>,
    pub cv: Condvar,
}

impl Sched {
    pub fn new(k: usize, seed: u64, replay: Option<Vec<usize>>, pct_depth: Option<u64>) -> Sched {
        let mut prng = crate::rng::Rng::new(seed).derive("pct");
        let pct = pct_depth.map(|d| {
            let mut prio: Vec<i64> = (0..k as i64).map(|i| 1000 + i).collect();
            prng.shuffle(&mut prio);
            let change: Vec<u64> = (0..d).map(|_| prng.below(120)).collect();
            (prio, change)
        });
        Sched {
            st: Mutex::new(State {
                threads: vec![TState::NotStarted; k],
                locks: BTreeMap::new(),
                running: None,
                choices: vec![],
                replay,
                rng: crate::rng::Rng::new(seed),
                trace: vec![],
                deadlock: None,
                steps: 0,
                max_steps: 20_000,
                overflow: false,
                probe_writer_queued_between: 0,
                held_pairs: Default::default(),
                pct,
            }),
            cv: Condvar::new(),
        }
    }

    fn admissible(s: &State) -> Vec<usize> {
        let mut v = vec![];
        for (t, st) in s.threads.iter().enumerate() {
            match st {
                TState::AtYield => v.push(t),
                TState::Wants { lock, mode, .. } => {
                    let l = s.locks.get(lock).cloned().unwrap_or_default();
                    let ok = match mode {
                        // a reader is admitted iff no writer holds and no writer is queued
                        Mode::Read => l.writer.is_none() && l.waiting_writers.is_empty(),
                        Mode::Write => l.writer.is_none() && l.readers.is_empty(),
                    };
                    if ok {
                        v.push(t);
                    }
                }
                _ => {}
            }
        }
        v
    }

    /// called with the state locked and nobody running
    fn pick_next(&self, s: &mut State) {
        if s.deadlock.is_some() {
            return;
        }
        if s.threads.iter().any(|t| *t == TState::NotStarted) {
            return; // the controller starts the run once everyone has registered
        }
        let adm = Self::admissible(s);
        if adm.is_empty() {
            if s.threads.iter().all(|t| *t == TState::Done) {
                self.cv.notify_all();
                return;
            }
            // nobody can proceed: wait-for description
            let waits: Vec<serde_json::Value> = s
                .threads
                .iter()
                .enumerate()
                .filter_map(|(t, st)| match st {
                    TState::Wants { lock, mode, site } => {
                        let l = s.locks.get(lock).cloned().unwrap_or_default();
                        Some(serde_json::json!({
                            "thread": t, "wants": format!("{:?}", mode), "lock": lock, "at": site,
                            "held_by_readers": l.readers, "held_by_writer": l.writer, "writers_queued": l.waiting_writers,
                            "holders_acquired_at": l.held_at,
                        }))
                    }
                    _ => None,
                })
                .collect();
            s.deadlock = Some(serde_json::json!({"waits": waits, "trace_tail": s.trace.iter().rev().take(24).rev().cloned().collect::<Vec<_>>()}));
            self.cv.notify_all();
            return;
        }
        s.steps += 1;
        if s.steps > s.max_steps {
            s.overflow = true;
        }
        let pos = s.choices.len();
        let by_policy = match &mut s.pct {
            Some((prio, change)) => {
                let mut best = *adm.iter().max_by_key(|t| prio[**t]).unwrap();
                if change.contains(&(pos as u64)) {
                    // change point: the thread about to run drops below everyone
                    let low = prio.iter().min().cloned().unwrap_or(0) - 1;
                    prio[best] = low;
                    best = *adm.iter().max_by_key(|t| prio[**t]).unwrap();
                }
                best
            }
            None => adm[s.rng.below(adm.len() as u64) as usize],
        };
        let chosen = match &s.replay {
            Some(r) if pos < r.len() && adm.contains(&r[pos]) => r[pos],
            _ => by_policy,
        };
        s.choices.push(chosen);
        // grant
        if let TState::Wants { lock, mode, site } = s.threads[chosen].clone() {
            let l = s.locks.entry(lock).or_default();
            // probe: this thread already holds the lock for reading and a writer queued in between
            match mode {
                Mode::Read => {
                    l.readers.push(chosen);
                }
                Mode::Write => {
                    l.writer = Some(chosen);
                    l.waiting_writers.retain(|t| *t != chosen);
                }
            }
            l.held_at.entry(chosen).or_default().push(site.clone());
            s.trace.push(format!("T{chosen} acquired {:?} {lock} @{site}", mode));
        } else {
            s.trace.push(format!("T{chosen} resumes"));
        }
        s.threads[chosen] = TState::Running;
        s.running = Some(chosen);
        self.cv.notify_all();
    }

    fn park_until_chosen(&self, mut g: std::sync::MutexGuard<'_, State>, me: usize) {
        loop {
            if g.running == Some(me) {
                return;
            }
            if g.deadlock.is_some() {
                // stay parked forever: the controller reports and the worker process exits
                loop {
                    g = self.cv.wait(g).unwrap_or_else(|e| e.into_inner());
                }
            }
            g = self.cv.wait(g).unwrap_or_else(|e| e.into_inner());
        }
    }

    /// a controlled thread announces itself and waits for its first turn
    pub fn enter(&self, me: usize) {
        set_tid(me);
        let mut g = self.st.lock().unwrap_or_else(|e| e.into_inner());
        g.threads[me] = TState::AtYield;
        self.cv.notify_all();
        self.park_until_chosen(g, me);
    }

    pub fn finish(&self, me: usize) {
        let mut g = self.st.lock().unwrap_or_else(|e| e.into_inner());
        g.threads[me] = TState::Done;
        g.running = None;
        g.trace.push(format!("T{me} done"));
        self.pick_next(&mut g);
        self.cv.notify_all();
    }

    /// controller: start the run when all threads have registered, wait for the end
    pub fn run(&self, wall_limit: Duration) -> Result<(), String> {
        let t0 = std::time::Instant::now();
        let mut g = self.st.lock().unwrap_or_else(|e| e.into_inner());
        while g.threads.iter().any(|t| *t == TState::NotStarted) {
            let (ng, _) = self.cv.wait_timeout(g, Duration::from_millis(50)).unwrap_or_else(|e| e.into_inner());
            g = ng;
            if t0.elapsed() > wall_limit {
                return Err("threads did not register".into());
            }
        }
        self.pick_next(&mut g);
        loop {
            if g.deadlock.is_some() || g.threads.iter().all(|t| *t == TState::Done) {
                return Ok(());
            }
            let (ng, _) = self.cv.wait_timeout(g, Duration::from_millis(50)).unwrap_or_else(|e| e.into_inner());
            g = ng;
            if t0.elapsed() > wall_limit {
                return Err(format!("scenario did not finish within {:?}: {:?}", wall_limit, g.threads));
            }
        }
    }
}

impl Scheduler for Sched {
    fn before_acquire(&self, lock: usize, mode: Mode, site: &'static Location<'static>) {
        let me = tid();
        if me == usize::MAX {
            return;
        }
        let mut g = self.st.lock().unwrap_or_else(|e| e.into_inner());
        let site = format!("{}:{}", site.file().rsplit('/').next().unwrap_or(""), site.line());
        // what this thread already holds (for the reach measure)
        let held: Vec<String> = g
            .locks
            .iter()
            .filter(|(_, l)| l.readers.contains(&me) || l.writer == Some(me))
            .flat_map(|(_, l)| l.held_at.get(&me).cloned().unwrap_or_default())
            .collect();
        for h in held {
            g.held_pairs.insert(format!("{h} -> {site}"));
        }
        if mode == Mode::Read {
            if let Some(l) = g.locks.get(&lock) {
                if l.readers.contains(&me) && !l.waiting_writers.is_empty() {
                    g.probe_writer_queued_between += 1;
                }
            }
        }
        g.threads[me] = TState::Wants { lock, mode, site: site.clone() };
        if mode == Mode::Write {
            g.locks.entry(lock).or_default().waiting_writers.push(me);
        }
        g.trace.push(format!("T{me} wants {:?} {lock} @{site}", mode));
        g.running = None;
        self.pick_next(&mut g);
        self.park_until_chosen(g, me);
    }

    fn released(&self, lock: usize, mode: Mode) {
        let me = tid();
        if me == usize::MAX {
            return;
        }
        let mut g = self.st.lock().unwrap_or_else(|e| e.into_inner());
        if let Some(l) = g.locks.get_mut(&lock) {
            match mode {
                Mode::Read => {
                    if let Some(p) = l.readers.iter().position(|t| *t == me) {
                        l.readers.remove(p);
                    }
                }
                Mode::Write => {
                    if l.writer == Some(me) {
                        l.writer = None;
                    }
                }
            }
            if let Some(v) = l.held_at.get_mut(&me) {
                v.pop();
            }
        }
        g.trace.push(format!("T{me} released {:?} {lock}", mode));
        // a release is a yield point: somebody else may slip in before this thread's next acquire
        g.threads[me] = TState::AtYield;
        g.running = None;
        self.pick_next(&mut g);
        self.park_until_chosen(g, me);
    }
}
