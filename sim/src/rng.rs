//! One integer decides everything: SplitMix64 with named sub-streams.

#[derive(Clone, Debug)]
pub struct Rng {
    s: u64,
}

fn mix(mut z: u64) -> u64 {
    z = z.wrapping_add(0x9E37_79B9_7F4A_7C15);
    z = (z ^ (z >> 30)).wrapping_mul(0xBF58_476D_1CE4_E5B9);
    z = (z ^ (z >> 27)).wrapping_mul(0x94D0_49BB_1331_11EB);
    z ^ (z >> 31)
}

pub fn fnv(s: &str) -> u64 {
    let mut h: u64 = 0xcbf2_9ce4_8422_2325;
    for b in s.bytes() {
        h ^= b as u64;
        h = h.wrapping_mul(0x0000_0100_0000_01B3);
    }
    h
}

/// seed of run `i` of property `prop` in a batch started with `root`
pub fn run_seed(root: u64, prop: &str, i: u64) -> u64 {
    mix(mix(root ^ fnv(prop)).wrapping_add(i.wrapping_mul(0xD6E8_FEB8_6659_FD93)))
}

impl Rng {
    pub fn new(seed: u64) -> Self {
        Rng { s: seed }
    }
    /// independent stream derived by name
    pub fn derive(&self, name: &str) -> Rng {
        Rng { s: mix(self.s ^ fnv(name)) }
    }
    pub fn next(&mut self) -> u64 {
        self.s = self.s.wrapping_add(0x9E37_79B9_7F4A_7C15);
        let mut z = self.s;
        z = (z ^ (z >> 30)).wrapping_mul(0xBF58_476D_1CE4_E5B9);
        z = (z ^ (z >> 27)).wrapping_mul(0x94D0_49BB_1331_11EB);
        z ^ (z >> 31)
    }
    /// uniform in [0, n)
    pub fn below(&mut self, n: u64) -> u64 {
        if n == 0 {
            return 0;
        }
        self.next() % n
    }
    /// uniform in [lo, hi]
    pub fn range(&mut self, lo: u64, hi: u64) -> u64 {
        lo + self.below(hi - lo + 1)
    }
    /// true with probability num/den
    pub fn chance(&mut self, num: u64, den: u64) -> bool {
        self.below(den) < num
    }
    pub fn pick<'a, T>(&mut self, xs: &'a [T]) -> &'a T {
        &xs[self.below(xs.len() as u64) as usize]
    }
    /// index drawn according to weights
    pub fn weighted(&mut self, ws: &[u64]) -> usize {
        let total: u64 = ws.iter().sum();
        if total == 0 {
            return 0;
        }
        let mut x = self.below(total);
        for (i, w) in ws.iter().enumerate() {
            if x < *w {
                return i;
            }
            x -= *w;
        }
        ws.len() - 1
    }
    pub fn bytes(&mut self, n: usize) -> Vec<u8> {
        (0..n).map(|_| self.next() as u8).collect()
    }
    pub fn shuffle<T>(&mut self, xs: &mut [T]) {
        for i in (1..xs.len()).rev() {
            let j = self.below(i as u64 + 1) as usize;
            xs.swap(i, j);
        }
    }
}
