//! A real engine + real JSON-RPC method table over a RocksDB directory on tmpfs, driven in-process.
#![allow(dead_code)]
use brc20_prog::verif;
use serde_json::{json, Value};
use std::cell::RefCell;
use std::panic::{catch_unwind, AssertUnwindSafe};
use std::path::{Path, PathBuf};
use std::sync::atomic::{AtomicU64, Ordering};

thread_local! {
    static LAST_PANIC: RefCell<Option<String>> = const { RefCell::new(None) };
    static RT: tokio::runtime::Runtime = tokio::runtime::Builder::new_current_thread()
        .enable_time()
        .start_paused(true)
        .build()
        .expect("runtime");
}

pub fn install_panic_hook() {
    std::panic::set_hook(Box::new(|info| {
        let msg = if let Some(s) = info.payload().downcast_ref::<&str>() {
            s.to_string()
        } else if let Some(s) = info.payload().downcast_ref::<String>() {
            s.clone()
        } else {
            "<non-string panic>".to_string()
        };
        let loc = info.location().map(|l| format!("{}:{}", l.file(), l.line())).unwrap_or_default();
        LAST_PANIC.with(|p| *p.borrow_mut() = Some(format!("{msg} @ {loc}")));
        if let Ok(mut g) = ALL_PANICS.lock() {
            if g.len() < 64 {
                g.push(format!("{msg} @ {loc}"));
            }
        }
    }));
}

/// panics of every thread of the process (server worker threads included) since the last call
static ALL_PANICS: std::sync::Mutex<Vec<String>> = std::sync::Mutex::new(Vec::new());
pub fn drain_all_panics() -> Vec<String> {
    ALL_PANICS.lock().map(|mut g| std::mem::take(&mut *g)).unwrap_or_default()
}

pub fn take_last_panic() -> Option<String> {
    LAST_PANIC.with(|p| p.borrow_mut().take())
}

#[derive(Clone, Debug, PartialEq)]
pub enum Resp {
    Ok(Value),
    Err { code: i64, message: String, data: Option<Value> },
    Panic(String),
}

impl Resp {
    pub fn is_ok(&self) -> bool {
        matches!(self, Resp::Ok(_))
    }
    pub fn is_err(&self) -> bool {
        matches!(self, Resp::Err { .. })
    }
    pub fn is_panic(&self) -> bool {
        matches!(self, Resp::Panic(_))
    }
    pub fn ok(&self) -> Option<&Value> {
        match self {
            Resp::Ok(v) => Some(v),
            _ => None,
        }
    }
    pub fn err_message(&self) -> Option<&str> {
        match self {
            Resp::Err { message, .. } => Some(message),
            _ => None,
        }
    }
    /// canonical JSON form used in transcripts and comparisons
    pub fn to_value(&self) -> Value {
        match self {
            Resp::Ok(v) => json!({ "ok": canon(v) }),
            Resp::Err { code, message, data } => json!({"err": {"code": code, "message": message, "data": data}}),
            Resp::Panic(m) => json!({ "panic": m }),
        }
    }
    /// like to_value but without the free-text message (code and data kept)
    pub fn to_value_nomsg(&self) -> Value {
        match self {
            Resp::Ok(v) => json!({ "ok": canon(v) }),
            Resp::Err { code, data, .. } => json!({"err": {"code": code, "data": data}}),
            Resp::Panic(_) => json!({ "panic": true }),
        }
    }
}

/// canonical form: `mineTimestamp` zeroed (the one field the properties exempt). serde_json's map
/// is ordered by key, so object key order is already canonical.
pub fn canon(v: &Value) -> Value {
    match v {
        Value::Object(m) => {
            let mut out = serde_json::Map::new();
            let mut entries: Vec<(&String, &Value)> = m.iter().collect();
            entries.sort_by(|a, b| a.0.cmp(b.0));
            for (k, x) in entries {
                if k == "mineTimestamp" {
                    out.insert(k.clone(), json!("0x0"));
                } else {
                    out.insert(k.clone(), canon(x));
                }
            }
            Value::Object(out)
        }
        Value::Array(a) => Value::Array(a.iter().map(canon).collect()),
        _ => v.clone(),
    }
}

static DIR_COUNTER: AtomicU64 = AtomicU64::new(0);

pub fn scratch_root() -> PathBuf {
    let base = if Path::new("/dev/shm").is_dir() { "/dev/shm" } else { "/tmp" };
    PathBuf::from(format!("{}/brc20-verif-{}", base, std::process::id()))
}

pub fn fresh_dir(tag: &str) -> PathBuf {
    let n = DIR_COUNTER.fetch_add(1, Ordering::SeqCst);
    let p = scratch_root().join(format!("{tag}-{n}"));
    let _ = std::fs::remove_dir_all(&p);
    std::fs::create_dir_all(&p).expect("mkdir scratch");
    p
}

pub fn cleanup_scratch() {
    let _ = std::fs::remove_dir_all(scratch_root());
}

pub fn copy_dir(from: &Path, to: &Path) -> std::io::Result<()> {
    std::fs::create_dir_all(to)?;
    for e in std::fs::read_dir(from)? {
        let e = e?;
        let p = e.path();
        let t = to.join(e.file_name());
        if p.is_dir() {
            copy_dir(&p, &t)?;
        } else if e.file_name() != "LOCK" {
            std::fs::copy(&p, &t)?;
        } else {
            std::fs::File::create(&t)?;
        }
    }
    Ok(())
}

#[derive(Clone, Debug, serde::Serialize, serde::Deserialize, PartialEq)]
pub struct SimConfig {
    pub network: String,
    pub traces: bool,
    pub call_gas_limit: u64,
}

impl Default for SimConfig {
    fn default() -> Self {
        SimConfig { network: "signet".into(), traces: true, call_gas_limit: 12_000 * 2_000 }
    }
}

pub fn chain_id_for(network: &str) -> u64 {
    if network == "bitcoin" || network == "mainnet" {
        0x4252433230
    } else {
        0x425243323073
    }
}

pub fn apply_config(c: &SimConfig) {
    let cfg = brc20_prog::Brc20ProgConfig::new(
        "127.0.0.1:0".to_string(),
        false,
        None,
        None,
        c.traces,
        c.call_gas_limit,
        String::new(), // no Bitcoin node: stubbed as unreachable
        String::new(),
        String::new(),
        c.network.clone(),
        chain_id_for(&c.network),
        false,
        String::new(),
        10 * 1024 * 1024,
        100 * 1024 * 1024,
        50,
    );
    verif::set_config(cfg);
}

pub struct Instance {
    pub dir: PathBuf,
    methods: Option<verif::jsonrpsee::Methods>,
    pub calls: u64,
    owns_dir: bool,
    /// seed of the in-memory hash containers of this replica (applied before every dispatch)
    pub hash_seed: Option<u64>,
}

impl Instance {
    /// open (or create) the database at `dir`
    pub fn open(dir: &Path) -> Result<Instance, String> {
        let methods = verif::rpc_methods(dir).map_err(|e| e.to_string())?;
        Ok(Instance { dir: dir.to_path_buf(), methods: Some(methods), calls: 0, owns_dir: false, hash_seed: None })
    }
    /// a handle without a database (for code that only needs the World's pure helpers)
    pub fn closed() -> Instance {
        Instance { dir: PathBuf::new(), methods: None, calls: 0, owns_dir: false, hash_seed: None }
    }
    pub fn fresh_seeded(tag: &str, hash_seed: u64) -> Instance {
        verif::simhash::set_seed(hash_seed);
        let mut i = Instance::fresh(tag);
        i.hash_seed = Some(hash_seed);
        i
    }
    pub fn fresh(tag: &str) -> Instance {
        let dir = fresh_dir(tag);
        let mut i = Instance::open(&dir).expect("open fresh instance");
        i.owns_dir = true;
        i
    }
    /// stop the process-equivalent: drop engine and databases (nothing is flushed or committed)
    pub fn close(&mut self) {
        self.methods = None;
    }
    pub fn reopen(&mut self) -> Result<(), String> {
        self.methods = None;
        if let Some(h) = self.hash_seed {
            verif::simhash::set_seed(h);
        }
        self.methods = Some(verif::rpc_methods(&self.dir).map_err(|e| e.to_string())?);
        Ok(())
    }
    pub fn is_open(&self) -> bool {
        self.methods.is_some()
    }
    pub fn method_names(&self) -> Vec<String> {
        let mut v: Vec<String> =
            self.methods.as_ref().map(|m| m.method_names().map(|s| s.to_string()).collect()).unwrap_or_default();
        v.sort();
        v
    }

    pub fn call(&mut self, method: &str, params: Value) -> Resp {
        let req = json!({"jsonrpc": "2.0", "id": 1, "method": method, "params": params}).to_string();
        self.call_raw(&req)
    }

    /// dispatch a raw JSON-RPC request string through the real method table
    pub fn call_raw(&mut self, req: &str) -> Resp {
        self.calls += 1;
        if let Some(h) = self.hash_seed {
            verif::simhash::set_seed(h);
        }
        let Some(methods) = self.methods.as_ref() else {
            return Resp::Err { code: -1, message: "instance closed".into(), data: None };
        };
        dispatch(methods, req)
    }

    /// another handle on the same engine (for concurrent request threads)
    pub fn methods_clone(&self) -> Option<verif::jsonrpsee::Methods> {
        self.methods.clone()
    }
}

/// run one request on the calling thread's own paused current-thread runtime
pub fn dispatch(methods: &verif::jsonrpsee::Methods, req: &str) -> Resp {
    let r = catch_unwind(AssertUnwindSafe(|| RT.with(|rt| rt.block_on(async { methods.raw_json_request(req, 1).await }))));
    match r {
        Err(_) => Resp::Panic(take_last_panic().unwrap_or_else(|| "panic".into())),
        Ok(Err(e)) => Resp::Err { code: -2, message: format!("dispatch: {e}"), data: None },
        Ok(Ok((raw, _rx))) => parse_response(raw.get()),
    }
}

pub fn parse_response(s: &str) -> Resp {
    let v: Value = match serde_json::from_str(s) {
        Ok(v) => v,
        Err(e) => return Resp::Err { code: -3, message: format!("unparsable response: {e}"), data: None },
    };
    if let Some(e) = v.get("error") {
        return Resp::Err {
            code: e.get("code").and_then(|c| c.as_i64()).unwrap_or(0),
            message: e.get("message").and_then(|m| m.as_str()).unwrap_or("").to_string(),
            data: e.get("data").cloned(),
        };
    }
    Resp::Ok(v.get("result").cloned().unwrap_or(Value::Null))
}

impl Drop for Instance {
    fn drop(&mut self) {
        self.methods = None;
        if self.owns_dir {
            let _ = std::fs::remove_dir_all(&self.dir);
        }
    }
}

/// simulated time (ms) elapsed on this worker's paused clock since the first call
pub fn sim_now_ms() -> u64 {
    thread_local! { static T0: std::cell::OnceCell<tokio::time::Instant> = const { std::cell::OnceCell::new() }; }
    RT.with(|rt| {
        let _g = rt.enter();
        let now = tokio::time::Instant::now();
        T0.with(|t0| now.duration_since(*t0.get_or_init(|| now)).as_millis() as u64)
    })
}

pub fn with_rt<T>(f: impl FnOnce(&tokio::runtime::Runtime) -> T) -> T {
    RT.with(|rt| f(rt))
}
