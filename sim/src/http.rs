//! Real `start()` on loopback + a minimal blocking HTTP/1.1 JSON-RPC client (C12, C20).
#![allow(dead_code)]
use serde_json::Value;
use std::io::{Read, Write};
use std::net::TcpStream;
use std::sync::atomic::{AtomicU16, Ordering};
use std::time::Duration;

static NEXT_PORT: AtomicU16 = AtomicU16::new(0);

pub fn next_port() -> u16 {
    let base = 21000 + (std::process::id() % 400) as u16 * 100;
    let n = NEXT_PORT.fetch_add(1, Ordering::SeqCst);
    base + (n % 100)
}

pub struct Server {
    pub port: u16,
    handle: Option<brc20_prog::verif::jsonrpsee::server::ServerHandle>,
    rt: Option<tokio::runtime::Runtime>,
}

pub fn config(network: &str, traces: bool, db_path: &str, port: u16, auth: Option<(&str, &str)>) -> brc20_prog::Brc20ProgConfig {
    config_with(network, traces, db_path, port, auth.is_some(), auth.map(|a| a.0), auth.map(|a| a.1))
}

/// every combination of the three authentication settings, including the inconsistent ones
pub fn config_with(network: &str, traces: bool, db_path: &str, port: u16, auth_enabled: bool, user: Option<&str>, pass: Option<&str>) -> brc20_prog::Brc20ProgConfig {
    brc20_prog::Brc20ProgConfig::new(
        format!("127.0.0.1:{port}"),
        auth_enabled,
        user.map(|a| a.to_string()),
        pass.map(|a| a.to_string()),
        traces,
        24_000_000,
        String::new(),
        String::new(),
        String::new(),
        network.to_string(),
        crate::inst::chain_id_for(network),
        false,
        db_path.to_string(),
        10 * 1024 * 1024,
        100 * 1024 * 1024,
        50,
    )
}

impl Server {
    /// the public entry point of the crate, on a small multi-threaded runtime of its own
    pub fn start(network: &str, traces: bool, db_path: &str, auth: Option<(&str, &str)>) -> Result<Server, String> {
        Self::start_with(network, traces, db_path, auth.is_some(), auth.map(|a| a.0), auth.map(|a| a.1))
    }
    pub fn start_with(network: &str, traces: bool, db_path: &str, auth_enabled: bool, user: Option<&str>, pass: Option<&str>) -> Result<Server, String> {
        let rt = tokio::runtime::Builder::new_multi_thread().worker_threads(2).enable_all().build().map_err(|e| e.to_string())?;
        let mut last = String::new();
        for _ in 0..20 {
            let port = next_port();
            let cfg = config_with(network, traces, db_path, port, auth_enabled, user, pass);
            match rt.block_on(async { brc20_prog::start(cfg).await.map_err(|e| e.to_string()) }) {
                Ok(handle) => return Ok(Server { port, handle: Some(handle), rt: Some(rt) }),
                Err(e) => {
                    // only a busy port is worth another attempt
                    if e.contains("Address already in use") || e.contains("os error 98") {
                        last = e;
                        continue;
                    }
                    return Err(e);
                }
            }
        }
        Err(format!("no free port: {last}"))
    }
    pub fn stop(mut self) {
        self.shutdown();
    }
    fn shutdown(&mut self) {
        if let (Some(h), Some(rt)) = (self.handle.take(), self.rt.take()) {
            let _ = h.stop();
            rt.block_on(async { h.stopped().await });
            rt.shutdown_timeout(Duration::from_secs(5));
        }
    }
}

impl Drop for Server {
    fn drop(&mut self) {
        self.shutdown();
    }
}

pub struct HttpResp {
    pub status: u16,
    pub body: String,
}

impl HttpResp {
    pub fn json(&self) -> Value {
        serde_json::from_str(&self.body).unwrap_or(Value::Null)
    }
}

/// one request per connection would exhaust ephemeral ports; this keeps the connection open
pub struct Client {
    port: u16,
    stream: Option<TcpStream>,
    pub requests: u64,
}

impl Client {
    pub fn new(port: u16) -> Client {
        Client { port, stream: None, requests: 0 }
    }
    fn connect(&mut self) -> std::io::Result<()> {
        let s = TcpStream::connect(("127.0.0.1", self.port))?;
        s.set_read_timeout(Some(Duration::from_secs(30)))?;
        s.set_nodelay(true)?;
        self.stream = Some(s);
        Ok(())
    }
    pub fn post(&mut self, body: &str, authorization: Option<&str>) -> Result<HttpResp, String> {
        self.requests += 1;
        for attempt in 0..2 {
            if self.stream.is_none() {
                self.connect().map_err(|e| format!("connect: {e}"))?;
            }
            match self.try_post(body, authorization) {
                Ok(r) => return Ok(r),
                Err(e) => {
                    self.stream = None;
                    if attempt == 1 {
                        return Err(e);
                    }
                }
            }
        }
        Err("unreachable".into())
    }
    fn try_post(&mut self, body: &str, authorization: Option<&str>) -> Result<HttpResp, String> {
        let s = self.stream.as_mut().ok_or("no stream")?;
        let mut req = format!("POST / HTTP/1.1\r\nHost: 127.0.0.1\r\nContent-Type: application/json\r\nContent-Length: {}\r\n", body.len());
        if let Some(a) = authorization {
            req.push_str(&format!("Authorization: {a}\r\n"));
        }
        req.push_str("\r\n");
        s.write_all(req.as_bytes()).map_err(|e| format!("write: {e}"))?;
        s.write_all(body.as_bytes()).map_err(|e| format!("write: {e}"))?;
        // head
        let mut head = Vec::new();
        let mut b = [0u8; 1];
        while !head.ends_with(b"\r\n\r\n") {
            let n = s.read(&mut b).map_err(|e| format!("read: {e}"))?;
            if n == 0 {
                return Err("eof in head".into());
            }
            head.push(b[0]);
            if head.len() > 65536 {
                return Err("head too long".into());
            }
        }
        let head = String::from_utf8_lossy(&head).to_string();
        let status: u16 = head.split_whitespace().nth(1).and_then(|x| x.parse().ok()).unwrap_or(0);
        let lower = head.to_lowercase();
        let mut body = Vec::new();
        if let Some(cl) = lower.lines().find_map(|l| l.strip_prefix("content-length:").map(|v| v.trim().parse::<usize>().unwrap_or(0))) {
            body.resize(cl, 0);
            s.read_exact(&mut body).map_err(|e| format!("read body: {e}"))?;
        } else if lower.contains("transfer-encoding: chunked") {
            loop {
                let mut line = Vec::new();
                while !line.ends_with(b"\r\n") {
                    let n = s.read(&mut b).map_err(|e| format!("read: {e}"))?;
                    if n == 0 {
                        return Err("eof in chunk".into());
                    }
                    line.push(b[0]);
                }
                let len = usize::from_str_radix(String::from_utf8_lossy(&line).trim(), 16).unwrap_or(0);
                let mut chunk = vec![0u8; len + 2];
                s.read_exact(&mut chunk).map_err(|e| format!("read chunk: {e}"))?;
                if len == 0 {
                    break;
                }
                body.extend_from_slice(&chunk[..len]);
            }
        }
        if lower.contains("connection: close") {
            self.stream = None;
        }
        Ok(HttpResp { status, body: String::from_utf8_lossy(&body).to_string() })
    }
    pub fn call(&mut self, method: &str, params: Value, authorization: Option<&str>) -> Result<Value, String> {
        let body = serde_json::json!({"jsonrpc": "2.0", "id": 1, "method": method, "params": params}).to_string();
        Ok(self.post(&body, authorization)?.json())
    }
}

pub fn basic(user: &str, pass: &str) -> String {
    use base64::Engine as _;
    format!("Basic {}", base64::prelude::BASE64_STANDARD.encode(format!("{user}:{pass}")))
}
