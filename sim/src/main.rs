mod asm;
mod framework;
mod gen;
mod http;
mod inst;
mod obs;
mod ops;
mod programs;
mod props;
mod rng;
mod sched;
mod world;

use framework::{check_main, replay_main, worker_main, Tier};

fn usage() -> ! {
    eprintln!("usage: sim check <id> [--tier quick|thorough] | sim replay <file> | sim worker ... | sim case <id> <seed>");
    std::process::exit(2);
}

fn main() {
    inst::install_panic_hook();
    let args: Vec<String> = std::env::args().collect();
    let props = props::all();
    let find = |id: &str| -> &'static dyn framework::Prop {
        match props.iter().find(|p| p.id() == id) {
            Some(p) => *p,
            None => {
                eprintln!("unknown property {id}");
                std::process::exit(2);
            }
        }
    };
    if args.len() < 2 {
        usage();
    }
    let code = match args[1].as_str() {
        "check" => {
            if args.len() < 3 {
                usage();
            }
            let mut tier = Tier::parse(&std::env::var("VERIF_TIER").unwrap_or_default());
            if let Some(i) = args.iter().position(|a| a == "--tier") {
                tier = Tier::parse(args.get(i + 1).map(|s| s.as_str()).unwrap_or("quick"));
            }
            let c = check_main(find(&args[2]), tier);
            inst::cleanup_scratch();
            c
        }
        "worker" => {
            if args.len() < 9 {
                usage();
            }
            let p = find(&args[2]);
            let tier = Tier::parse(&args[3]);
            let n = |i: usize| args[i].parse::<u64>().unwrap_or(0);
            let first = args.get(9).and_then(|s| s.parse::<u64>().ok()).unwrap_or(0);
            worker_main(p, tier, n(4), n(5), n(6), n(7), n(8), first);
            0
        }
        "replay" => {
            if args.len() < 3 {
                usage();
            }
            let c = replay_main(&props, &args[2], false);
            inst::cleanup_scratch();
            c
        }
        "replay-inner" => {
            if args.len() < 3 {
                usage();
            }
            let c = replay_main(&props, &args[2], true);
            inst::cleanup_scratch();
            c
        }
        "c04-child" => {
            if args.len() < 6 {
                usage();
            }
            props::c04::child_main(&args[2], args[3].parse().unwrap_or(0), args[4].parse().unwrap_or(0), &args[5])
        }
        "c20-child" => {
            if args.len() < 5 {
                usage();
            }
            let warm = if args.len() >= 8 { Some((args[5].as_str(), args[6].as_str(), args[7].as_str())) } else { None };
            props::c20::child_main(&args[2], &args[3], &args[4], warm)
        }
        "golden-make" => {
            props::c02::golden_make();
            inst::cleanup_scratch();
            0
        }
        // print the generated case for a seed (debugging aid)
        "case" => {
            let p = find(&args[2]);
            let seed: u64 = args.get(3).and_then(|s| s.parse().ok()).unwrap_or(1);
            let case = p.generate(seed, Tier::Quick);
            println!("{}", serde_json::to_string_pretty(&case).unwrap());
            let out = p.execute(&case);
            println!("violation: {:?}\nstats: {:?}\nnontrivial: {}", out.violation, out.stats.counts, out.nontrivial);
            inst::cleanup_scratch();
            0
        }
        // `exec-case <prop> <file>`: run one explicit case (development aid)
        "exec-case" => {
            let p = find(&args[2]);
            let case: serde_json::Value = serde_json::from_str(&std::fs::read_to_string(&args[3]).expect("case file")).expect("json");
            let t0 = std::time::Instant::now();
            let out = p.execute(&case);
            println!("violation: {:?}\nstats: {:?}\nnontrivial: {} wall: {:?}", out.violation, out.stats.counts, out.nontrivial, t0.elapsed());
            inst::cleanup_scratch();
            0
        }
        _ => usage(),
    };
    std::process::exit(code);
}
