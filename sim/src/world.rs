//! Executes semantic operations against one real instance and keeps the indexer-side bookkeeping.
#![allow(dead_code)]
use crate::inst::{Instance, Resp, SimConfig};
use crate::ops::*;
use crate::programs as pg;
use alloy::consensus::{SignableTransaction, TxLegacy};
use alloy::primitives::{keccak256, Address, Bytes, TxKind as ATxKind, B256, U256};
use alloy::signers::local::PrivateKeySigner;
use alloy::signers::SignerSync;
use alloy_sol_types::{sol, SolCall};
use base64::Engine as _;
use serde_json::{json, Value};
use sha2::{Digest, Sha256};
use std::collections::{BTreeMap, BTreeSet};

pub mod ctl {
    use super::sol;
    sol! {
        function mint(bytes ticker, address to, uint256 value) returns (bool);
        function burn(bytes ticker, address from, uint256 value) returns (bool);
        function balanceOf(bytes ticker, address account) returns (uint256);
        function transfer(bytes ticker, address to, uint256 value) returns (bool);
        function approve(bytes ticker, address spender, uint256 value) returns (bool);
        function transferFrom(bytes ticker, address from, address to, uint256 value) returns (bool);
        function allowance(bytes ticker, address owner, address spender) returns (uint256);
        function getTickerAddress(bytes ticker) returns (address);
    }
}
pub mod erc {
    use super::sol;
    sol! {
        function mint(address to, uint256 value) returns (bool);
        function burn(address from, uint256 value) returns (bool);
        function balanceOf(address account) returns (uint256);
        function totalSupply() returns (uint256);
        function transfer(address to, uint256 value) returns (bool);
        function approve(address spender, uint256 value) returns (bool);
        function transferFrom(address from, address to, uint256 value) returns (bool);
        function allowance(address owner, address spender) returns (uint256);
    }
    pub mod owner {
        use super::super::sol;
        sol! {
            function approve(address owner, address spender, uint256 value) returns (bool);
            function transferFrom(address spender, address from, address to, uint256 value) returns (bool);
        }
    }
}

pub const CONTROLLER: &str = "0xc54dd4581af2dbf18e4d90840226756e9d2b3cdb";
pub const INDEXER: &str = "0x0000000000000000000000000000000000003ca6";
pub const DEAD: &str = "0x000000000000000000000000000000000000dead";
pub const GENEROUS_LEN: u64 = 2000;
pub const BASE_TS: u64 = 1_700_000_000;
pub const TICKERS: [&str; 8] = ["ordi", "ORDI", "sats", "SaTs", "x", "\u{c9}t\u{e9}", "", "a-long-ticker-0123456789"];
pub const N_PK: u8 = 4;
pub const N_SIGNERS: u8 = 3;

pub fn sha(s: &str) -> [u8; 32] {
    let mut h = Sha256::new();
    h.update(s.as_bytes());
    h.finalize().into()
}
pub fn hex0x(b: &[u8]) -> String {
    format!("0x{}", hex::encode(b))
}
pub fn pkscript(i: u8) -> String {
    format!("76a914{}88ac", hex::encode([i + 1; 20]))
}
pub fn pk_addr(i: u8) -> Address {
    let b = hex::decode(pkscript(i)).unwrap();
    Address::from_slice(&keccak256(b)[12..])
}
pub fn signer(i: u8) -> PrivateKeySigner {
    PrivateKeySigner::from_bytes(&B256::from(sha(&format!("verif-signer-{i}")))).expect("key")
}
pub fn addr_str(a: &Address) -> String {
    format!("0x{}", hex::encode(a.as_slice()))
}
pub fn parse_addr(s: &str) -> Address {
    s.parse().unwrap_or(Address::ZERO)
}
pub fn amount(a: &Amount) -> U256 {
    match a {
        Amount::Small(v) => U256::from(*v),
        Amount::Max => U256::MAX,
        Amount::MaxMinus(v) => U256::MAX - U256::from(*v),
    }
}
pub fn u256_hex(v: U256) -> String {
    format!("0x{:x}", v)
}
pub fn hex_u64(v: &Value) -> Option<u64> {
    let s = v.as_str()?;
    u64::from_str_radix(s.trim_start_matches("0x"), 16).ok()
}
pub fn block_hash_for(tag: u32) -> String {
    hex0x(&sha(&format!("verif-block-{tag}")))
}
/// the Bitcoin transaction id the indexer reports for scenario transaction `id`; boundary values (all zero,
/// all ones) for one id in eight each
pub fn txid_for(id: u32) -> String {
    match id % 8 {
        3 => ZERO_HASH.to_string(),
        6 => format!("0x{}", "ff".repeat(32)),
        _ => hex0x(&sha(&format!("verif-txid-{id}"))),
    }
}
pub fn insc_for(id: u32) -> String {
    format!("{}i0", hex::encode(sha(&format!("verif-insc-{id}"))))
}
pub const ZERO_HASH: &str = "0x0000000000000000000000000000000000000000000000000000000000000000";

#[derive(Clone, Debug)]
pub struct Call {
    pub method: String,
    pub params: Value,
}

#[derive(Clone, Debug)]
pub struct CallRec {
    pub op_index: usize,
    pub call: Call,
    pub resp: Resp,
}

#[derive(Clone, Debug)]
pub struct BlockRec {
    pub height: u64,
    pub hash: String,
    pub ts: u64,
    pub calls: Vec<Call>,
    /// receipts returned to the indexer for this block, in tx index order: {insc, own, receipt}
    pub receipts: Vec<Value>,
    /// the semantic transactions this block was built from (for Resubmit)
    pub txs: Vec<Tx>,
}

#[derive(Clone, Debug, Default)]
pub struct Contract {
    pub addr: String,
    pub insc: String,
    pub kind: String,
}

/// light bookkeeping that must follow reorgs / lost caches
#[derive(Clone, Debug, Default)]
pub struct Book {
    pub contracts: Vec<Contract>,
    /// lower-cased ticker -> token address
    pub tokens: BTreeMap<String, String>,
}

#[derive(Clone, Debug, Default)]
pub struct Universe {
    /// heights below this one are not observed (0 except for chains mined to a great height)
    pub from_height: u64,
    pub max_height: u64,
    pub block_hashes: BTreeSet<String>,
    pub tx_hashes: BTreeSet<String>,
    pub inscription_ids: BTreeSet<String>,
    pub addresses: BTreeSet<String>,
    pub slots: BTreeMap<String, BTreeSet<String>>,
    pub tickers: BTreeSet<String>,
}

impl Universe {
    pub fn merge(&mut self, o: &Universe) {
        self.max_height = self.max_height.max(o.max_height);
        self.from_height = self.from_height.max(o.from_height);
        self.block_hashes.extend(o.block_hashes.iter().cloned());
        self.tx_hashes.extend(o.tx_hashes.iter().cloned());
        self.inscription_ids.extend(o.inscription_ids.iter().cloned());
        self.addresses.extend(o.addresses.iter().cloned());
        for (a, s) in &o.slots {
            self.slots.entry(a.clone()).or_default().extend(s.iter().cloned());
        }
        self.tickers.extend(o.tickers.iter().cloned());
    }
}

#[derive(Clone, Debug)]
pub struct Open {
    pub height: u64,
    pub ts: u64,
    pub hash_param: String,
    pub txs: u64,
    pub calls: Vec<Call>,
    pub receipts: Vec<Value>,
    pub sem_txs: Vec<Tx>,
}

#[derive(Clone, Debug, Default)]
pub struct Stats {
    pub counts: BTreeMap<String, u64>,
}
impl Stats {
    pub fn bump(&mut self, k: &str) {
        *self.counts.entry(k.to_string()).or_insert(0) += 1;
    }
    pub fn add(&mut self, k: &str, n: u64) {
        *self.counts.entry(k.to_string()).or_insert(0) += n;
    }
    pub fn merge(&mut self, o: &Stats) {
        for (k, v) in &o.counts {
            *self.counts.entry(k.clone()).or_insert(0) += v;
        }
    }
}

pub struct World {
    pub inst: Instance,
    pub cfg: SimConfig,
    pub height: Option<u64>,
    pub open: Option<Open>,
    pub chain: Vec<BlockRec>,
    pub book: Book,
    pub snapshots: BTreeMap<u64, Book>,
    pub committed: Option<u64>,
    pub committed_chain_len: usize,
    /// calls of a block under construction that only parked transactions and were made durable by a commit that the
    /// engine accepted because nothing had been accepted into the block yet
    pub committed_parked: Vec<Call>,
    /// highest block ever finalised on this database directory (survives clearCaches / restart)
    pub max_finalised: Option<u64>,
    pub uni: Universe,
    pub log: Vec<CallRec>,
    pub stats: Stats,
    pub op_index: usize,
    pub record: bool,
    pub last_ts: u64,
    /// reorg targets attempted (accepted or not) since last reset; used by C04
    pub reorg_targets: Vec<u64>,
    /// an accepted reorg to the current height may or may not have committed (the statement does not
    /// say); resolved by looking at the height the instance reports after the next loss of caches
    pub noop_reorg_at: Option<u64>,
    /// semantic transactions of the blocks removed by the last accepted reorg (oldest first)
    pub orphaned: Vec<Vec<Tx>>,
    pub resubmit_counter: u32,
    /// raw signed transactions by scenario tx id (for byte-identical re-inscriptions)
    pub raw_sent: BTreeMap<u32, Vec<u8>>,
}

impl World {
    pub fn new(inst: Instance, cfg: SimConfig) -> World {
        World {
            inst,
            cfg,
            height: None,
            open: None,
            chain: vec![],
            book: Book::default(),
            snapshots: BTreeMap::new(),
            committed: None,
            committed_chain_len: 0,
            committed_parked: vec![],
            max_finalised: None,
            uni: Universe::default(),
            log: vec![],
            stats: Stats::default(),
            op_index: 0,
            record: true,
            last_ts: BASE_TS,
            reorg_targets: vec![],
            noop_reorg_at: None,
            orphaned: vec![],
            resubmit_counter: 0,
            raw_sent: BTreeMap::new(),
        }
    }

    pub fn chain_id(&self) -> u64 {
        crate::inst::chain_id_for(&self.cfg.network)
    }

    pub fn next_height(&self) -> u64 {
        match self.height {
            None => 0,
            Some(h) => h + 1,
        }
    }

    // ---------------------------------------------------------------- dispatch
    pub fn call(&mut self, method: &str, params: Value) -> Resp {
        let resp = self.inst.call(method, params.clone());
        if self.record {
            self.log.push(CallRec {
                op_index: self.op_index,
                call: Call { method: method.to_string(), params },
                resp: resp.clone(),
            });
        }
        resp
    }

    // ---------------------------------------------------------------- resolution
    pub fn who_addr(&self, w: &Who) -> Address {
        match w {
            Who::Pk(i) => pk_addr(*i % N_PK),
            Who::Signer(i) => signer(*i % N_SIGNERS).address(),
            Who::Contract(k) => self.contract_addr(*k),
            Who::Indexer => parse_addr(INDEXER),
            Who::Zero => Address::ZERO,
        }
    }
    pub fn contract_addr(&self, k: u8) -> Address {
        if self.book.contracts.is_empty() {
            return parse_addr(DEAD);
        }
        parse_addr(&self.book.contracts[k as usize % self.book.contracts.len()].addr)
    }
    pub fn ticker_str(t: u8) -> &'static str {
        TICKERS[t as usize % TICKERS.len()]
    }
    pub fn target_addr(&self, t: &Target) -> Address {
        match t {
            Target::Contract(k) => self.contract_addr(*k),
            Target::Controller => parse_addr(CONTROLLER),
            Target::Token(t) => {
                let key = Self::ticker_str(*t).to_lowercase();
                self.book.tokens.get(&key).map(|a| parse_addr(a)).unwrap_or(parse_addr(DEAD))
            }
            Target::Precompile(p) => {
                let mut a = [0u8; 20];
                a[19] = *p;
                Address::from(a)
            }
            Target::Dead => parse_addr(DEAD),
            Target::Addr(s) => parse_addr(s),
        }
    }

    pub fn erc_ctl_bytes(&self, ticker: u8, call: &Erc) -> Vec<u8> {
        // user-supplied calldata: the controller keys tokens by the exact bytes; the bridge lower-cases
        let t: Bytes = Self::ticker_str(ticker).to_lowercase().into_bytes().into();
        match call {
            Erc::Transfer { to, amount: a } => ctl::transferCall::new((t, self.who_addr(to), amount(a))).abi_encode(),
            Erc::Approve { spender, amount: a } => {
                ctl::approveCall::new((t, self.who_addr(spender), amount(a))).abi_encode()
            }
            Erc::TransferFrom { from, to, amount: a } => {
                ctl::transferFromCall::new((t, self.who_addr(from), self.who_addr(to), amount(a))).abi_encode()
            }
            Erc::Mint { to, amount: a } => ctl::mintCall::new((t, self.who_addr(to), amount(a))).abi_encode(),
            Erc::Burn { from, amount: a } => ctl::burnCall::new((t, self.who_addr(from), amount(a))).abi_encode(),
            Erc::OwnerApprove { spender, amount: a, .. } => {
                ctl::approveCall::new((t, self.who_addr(spender), amount(a))).abi_encode()
            }
            Erc::OwnerTransferFrom { from, to, amount: a, .. } => {
                ctl::transferFromCall::new((t, self.who_addr(from), self.who_addr(to), amount(a))).abi_encode()
            }
            Erc::BalanceOf { who } => ctl::balanceOfCall::new((t, self.who_addr(who))).abi_encode(),
            Erc::TotalSupply => ctl::getTickerAddressCall::new((t,)).abi_encode(),
        }
    }
    pub fn erc_tok_bytes(&self, call: &Erc) -> Vec<u8> {
        match call {
            Erc::Transfer { to, amount: a } => erc::transferCall::new((self.who_addr(to), amount(a))).abi_encode(),
            Erc::Approve { spender, amount: a } => erc::approveCall::new((self.who_addr(spender), amount(a))).abi_encode(),
            Erc::TransferFrom { from, to, amount: a } => {
                erc::transferFromCall::new((self.who_addr(from), self.who_addr(to), amount(a))).abi_encode()
            }
            Erc::Mint { to, amount: a } => erc::mintCall::new((self.who_addr(to), amount(a))).abi_encode(),
            Erc::Burn { from, amount: a } => erc::burnCall::new((self.who_addr(from), amount(a))).abi_encode(),
            Erc::OwnerApprove { owner, spender, amount: a } => {
                erc::owner::approveCall::new((self.who_addr(owner), self.who_addr(spender), amount(a))).abi_encode()
            }
            Erc::OwnerTransferFrom { spender, from, to, amount: a } => erc::owner::transferFromCall::new((
                self.who_addr(spender),
                self.who_addr(from),
                self.who_addr(to),
                amount(a),
            ))
            .abi_encode(),
            Erc::BalanceOf { who } => erc::balanceOfCall::new((self.who_addr(who),)).abi_encode(),
            Erc::TotalSupply => erc::totalSupplyCall::new(()).abi_encode(),
        }
    }

    pub fn deploy_bytes(&self, p: &DeployProg) -> Vec<u8> {
        match p {
            DeployProg::Store => pg::store_initcode(),
            DeployProg::Probe => pg::probe_initcode(),
            DeployProg::Empty => vec![],
            DeployProg::Reverting => vec![0x5f, 0x5f, 0xfd],
            DeployProg::NumberCode => pg::number_initcode(),
            DeployProg::Raw(h) => hex::decode(h).unwrap_or_default(),
        }
    }

    pub fn cd_bytes(&self, cd: &Cd) -> Vec<u8> {
        match cd {
            Cd::Empty => vec![],
            Cd::Sstore(p) => pg::cd_sstore(p),
            Cd::Log { topics, data_len } => {
                let ts: Vec<[u8; 32]> = topics.iter().map(|t| sha(&format!("topic-{t}"))).collect();
                let data: Vec<u8> = (0..*data_len).map(|i| i.wrapping_mul(7).wrapping_add(1)).collect();
                pg::cd_log(&ts, &data)
            }
            Cd::Revert(n) => pg::cd_revert(&vec![0xEE; *n as usize]),
            Cd::Echo(n) => pg::cd_echo(&(0..*n).collect::<Vec<u8>>()),
            Cd::Invalid => pg::cd_invalid(),
            Cd::Spin => pg::cd_spin(),
            Cd::Sload(s) => pg::cd_sload(*s),
            Cd::SelfDestruct(w) => pg::cd_selfdestruct(&self.who_addr(w).into_array()),
            Cd::CreateChild { salt, kind } => {
                let init = match kind {
                    ChildKind::Store => pg::store_initcode(),
                    ChildKind::Probe => pg::probe_initcode(),
                    ChildKind::Empty => vec![0x00],
                    ChildKind::Reverting => vec![0x5f, 0x5f, 0xfd],
                };
                pg::cd_create(*salt, &init)
            }
            Cd::CallOther { kind, target, inner } => {
                pg::cd_call(*kind, &self.target_addr(target).into_array(), &self.cd_bytes(inner))
            }
            Cd::Multi(v) => pg::cd_multi(&v.iter().map(|c| self.cd_bytes(c)).collect::<Vec<_>>()),
            Cd::Burn(n) => pg::cd_burn(*n),
            Cd::BlockInfo => pg::cd_blockinfo(),
            Cd::BtcDetails => crate::props::c09::btc_details_calldata(),
            Cd::Probe(d) => pg::cd_probe(d),
            Cd::Ctl { ticker, call } => self.erc_ctl_bytes(*ticker, call),
            Cd::Tok(call) => self.erc_tok_bytes(call),
            Cd::Raw(h) => hex::decode(h).unwrap_or_default(),
        }
    }

    /// slots a Cd may touch on its target (for the observation universe)
    fn note_slots(&mut self, target: &Address, cd: &Cd) {
        let a = addr_str(target);
        match cd {
            Cd::Sstore(p) => {
                let e = self.uni.slots.entry(a).or_default();
                for (s, _) in p {
                    e.insert(format!("0x{:x}", s));
                }
            }
            Cd::Multi(v) => {
                for c in v {
                    self.note_slots(target, c);
                }
            }
            Cd::CreateChild { .. } => {
                self.uni.slots.entry(a).or_default().insert("0xc0de".into());
            }
            Cd::CallOther { kind, target: t2, inner } => {
                let inner_target = if *kind == 2 { *target } else { self.target_addr(t2) };
                self.note_slots(&inner_target, inner);
            }
            Cd::Probe(d) => {
                let e = self.uni.slots.entry(a).or_default();
                for i in 0..pg::PROBE_FIELDS.len() as u64 {
                    e.insert(format!("0x{:x}", pg::PROBE_BASE + i));
                }
                for i in 0..d.len() as u64 {
                    e.insert(format!("0x{:x}", pg::PROBE_HASH_BASE + i));
                }
            }
            _ => {}
        }
    }

    pub fn payload_fields(enc: &Enc, bytes: &[u8]) -> (Value, Value) {
        let b64 = |prefix: u8, body: Vec<u8>, pad: u8| {
            let mut d = vec![prefix];
            d.extend_from_slice(&body);
            let mut s = base64::prelude::BASE64_STANDARD_NO_PAD.encode(d);
            for _ in 0..pad {
                s.push('=');
            }
            s
        };
        match enc {
            Enc::Hex => (json!(hex0x(bytes)), Value::Null),
            Enc::B64Raw { pad } => (Value::Null, json!(b64(0, bytes.to_vec(), *pad))),
            Enc::B64Nada { pad } => (Value::Null, json!(b64(1, nada::encode(bytes.to_vec()), *pad))),
            Enc::B64Zstd { pad } => {
                let mut out = vec![0u8; bytes.len() + 1024];
                match zstd_safe::compress(out.as_mut_slice(), bytes, 3) {
                    Ok(n) => (Value::Null, json!(b64(2, out[..n].to_vec(), *pad))),
                    Err(_) => (json!(hex0x(bytes)), Value::Null),
                }
            }
        }
    }

    pub fn len_for(len: &LenPolicy) -> u64 {
        match len {
            LenPolicy::Generous => GENEROUS_LEN,
            LenPolicy::Exact(n) => *n,
            LenPolicy::Zero => 0,
        }
    }

    pub fn sign_tx(&self, signer_idx: u8, nonce: u64, to: Option<Address>, input: Vec<u8>, chain_ok: bool) -> Vec<u8> {
        let s = signer(signer_idx % N_SIGNERS);
        let tx = TxLegacy {
            // "not of this chain" comes in three shapes, chosen by the transaction's own content: another chain id,
            // the neighbouring chain id, and a pre-EIP-155 signature that commits to no chain at all
            chain_id: if chain_ok {
                Some(self.chain_id())
            } else {
                match (nonce + input.len() as u64 + signer_idx as u64) % 3 {
                    0 => None,
                    1 => Some(self.chain_id() ^ 0xff),
                    _ => Some(self.chain_id() + 1),
                }
            },
            nonce,
            gas_price: 0,
            // the gas limit field of the signed payload is not what bounds the execution (the inscription size is): most
            // transactions carry 0, some a value far above or below any allowance
            gas_limit: match (nonce + input.len() as u64 * 7 + signer_idx as u64) % 6 {
                0 => 1_000_000,
                1 => u64::MAX,
                2 => 21_000,
                _ => 0,
            },
            to: match to {
                Some(a) => ATxKind::Call(a),
                None => ATxKind::Create,
            },
            // no account holds any balance and nothing transfers value: the value field of a signed payload is inert
            value: if (nonce * 5 + input.len() as u64 + signer_idx as u64 * 3) % 7 == 0 { U256::from(1u64 + nonce) } else { U256::ZERO },
            input: input.into(),
        };
        let sig = s.sign_hash_sync(&tx.signature_hash()).expect("sign");
        let signed = tx.into_signed(sig);
        let mut out = Vec::new();
        signed.rlp_encode(&mut out);
        out
    }

    // ---------------------------------------------------------------- block protocol helpers
    fn hash_param(h: &HashMode) -> String {
        match h {
            HashMode::Zero => ZERO_HASH.to_string(),
            HashMode::Explicit(t) => block_hash_for(*t),
        }
    }

    /// (timestamp, hash param, tx_idx) for the next transaction; opens a block if none is open
    fn ensure_open(&mut self, ts: u64, hash: &HashMode) -> (u64, String, u64) {
        if self.open.is_none() {
            self.open = Some(Open {
                height: self.next_height(),
                ts,
                hash_param: Self::hash_param(hash),
                txs: 0,
                calls: vec![],
                receipts: vec![],
                sem_txs: vec![],
            });
        }
        let o = self.open.as_ref().unwrap();
        (o.ts, o.hash_param.clone(), o.txs)
    }

    fn block_call(&mut self, method: &str, params: Value) -> Resp {
        let r = self.call(method, params.clone());
        if let Some(o) = self.open.as_mut() {
            o.calls.push(Call { method: method.to_string(), params });
        }
        r
    }

    fn absorb_receipt(&mut self, r: &Value, insc: &str, kind_hint: &str) {
        if r.is_null() {
            return;
        }
        if let Some(h) = r.get("transactionHash").and_then(|v| v.as_str()) {
            self.uni.tx_hashes.insert(h.to_string());
        }
        for k in ["from", "to", "contractAddress"] {
            if let Some(a) = r.get(k).and_then(|v| v.as_str()) {
                self.uni.addresses.insert(a.to_lowercase());
            }
        }
        if let Some(bh) = r.get("blockHash").and_then(|v| v.as_str()) {
            self.uni.block_hashes.insert(bh.to_string());
        }
        let ok = r.get("status").and_then(hex_u64) == Some(1);
        if ok {
            if let Some(a) = r.get("contractAddress").and_then(|v| v.as_str()) {
                self.book.contracts.push(Contract {
                    addr: a.to_lowercase(),
                    insc: insc.to_string(),
                    kind: kind_hint.to_string(),
                });
            }
        }
        // BRC20Created(bytes indexed ticker, address indexed contract_address)
        let created = hex0x(keccak256(b"BRC20Created(bytes,address)").as_slice());
        if let Some(logs) = r.get("logs").and_then(|l| l.as_array()) {
            for l in logs {
                if let Some(a) = l.get("address").and_then(|v| v.as_str()) {
                    self.uni.addresses.insert(a.to_lowercase());
                }
                let topics = l.get("topics").and_then(|t| t.as_array()).cloned().unwrap_or_default();
                if topics.first().and_then(|t| t.as_str()) == Some(created.as_str()) && topics.len() >= 3 {
                    let tok = format!("0x{}", &topics[2].as_str().unwrap_or("")[26..]);
                    let thash = topics[1].as_str().unwrap_or("").to_string();
                    for t in TICKERS {
                        let lc = t.to_lowercase();
                        if hex0x(keccak256(lc.as_bytes()).as_slice()) == thash {
                            self.book.tokens.insert(lc, tok.clone());
                        }
                    }
                    self.uni.addresses.insert(tok);
                }
            }
        }
        if let Some(o) = self.open.as_mut() {
            // `insc` is the id the indexer supplied with the call; for drained pending transactions
            // (2nd.. receipt of one brc20_transact) the id is the parked transaction's own
            let own = !o.receipts.iter().any(|x| x["insc"].as_str() == Some(insc) && x["own"].as_bool() == Some(true));
            o.receipts.push(json!({"insc": insc, "own": own, "receipt": r}));
        }
    }

    /// execute one transaction of a block op; returns the response
    pub fn exec_tx(&mut self, ts: u64, hash: &HashMode, tx: &Tx) -> Resp {
        let r = self.exec_tx_inner(ts, hash, tx);
        if r.is_ok() {
            if let Some(o) = self.open.as_mut() {
                o.sem_txs.push(tx.clone());
            }
        }
        r
    }

    fn exec_tx_inner(&mut self, ts: u64, hash: &HashMode, tx: &Tx) -> Resp {
        let (ts, hash_param, tx_idx) = self.ensure_open(ts, hash);
        let insc = insc_for(tx.id);
        self.uni.inscription_ids.insert(insc.clone());
        let byte_len = Self::len_for(&tx.len);
        let resp = match &tx.kind {
            TxKind::Deploy { sender, prog } => {
                let bytes = self.deploy_bytes(prog);
                let (data, b64) = Self::payload_fields(&tx.enc, &bytes);
                self.uni.addresses.insert(addr_str(&pk_addr(*sender % N_PK)));
                let r = self.block_call(
                    "brc20_deploy",
                    json!({"from_pkscript": pkscript(*sender % N_PK), "data": data, "base64_data": b64,
                           "timestamp": ts, "hash": hash_param, "tx_idx": tx_idx, "inscription_id": insc,
                           "inscription_byte_len": byte_len, "op_return_tx_id": txid_for(tx.id)}),
                );
                if let Resp::Ok(v) = &r {
                    let kind = match prog {
                        DeployProg::Store => "store",
                        DeployProg::Probe => "probe",
                        _ => "other",
                    };
                    self.absorb_receipt(&v.clone(), &insc, kind);
                    self.bump_open();
                }
                r
            }
            TxKind::Call { sender, target, by_inscription, data } => {
                let bytes = self.cd_bytes(data);
                let (d, b64) = Self::payload_fields(&tx.enc, &bytes);
                let taddr = self.target_addr(target);
                self.note_slots(&taddr, data);
                self.uni.addresses.insert(addr_str(&taddr));
                self.uni.addresses.insert(addr_str(&pk_addr(*sender % N_PK)));
                let (caddr, cinsc) = if *by_inscription {
                    let insc_of = self
                        .book
                        .contracts
                        .iter()
                        .find(|c| parse_addr(&c.addr) == taddr)
                        .map(|c| c.insc.clone())
                        .unwrap_or_else(|| "nonexistent-inscription".to_string());
                    (Value::Null, json!(insc_of))
                } else {
                    (json!(addr_str(&taddr)), Value::Null)
                };
                let r = self.block_call(
                    "brc20_call",
                    json!({"from_pkscript": pkscript(*sender % N_PK), "contract_address": caddr,
                           "contract_inscription_id": cinsc, "data": d, "base64_data": b64,
                           "timestamp": ts, "hash": hash_param, "tx_idx": tx_idx, "inscription_id": insc,
                           "inscription_byte_len": byte_len, "op_return_tx_id": txid_for(tx.id)}),
                );
                if let Resp::Ok(v) = &r {
                    self.absorb_receipt(&v.clone(), &insc, "");
                    self.bump_open();
                    self.after_call_effects(&taddr, data, v);
                }
                r
            }
            TxKind::Transact { signer: s, nonce, to, data, deploy, chain_ok } => {
                let saddr = signer(*s % N_SIGNERS).address();
                self.uni.addresses.insert(addr_str(&saddr));
                let n = match nonce {
                    NonceSpec::Abs(n) => *n,
                    NonceSpec::Rel(k) => {
                        let cur = self.account_nonce(&saddr);
                        (cur as i64 + *k).max(0) as u64
                    }
                };
                let (to_addr, input) = match (to, deploy) {
                    (_, Some(p)) => (None, self.deploy_bytes(p)),
                    (Some(t), None) => {
                        let a = self.target_addr(t);
                        self.note_slots(&a, data);
                        self.uni.addresses.insert(addr_str(&a));
                        (Some(a), self.cd_bytes(data))
                    }
                    (None, None) => (None, self.cd_bytes(data)),
                };
                let raw = self.sign_tx(*s, n, to_addr, input, *chain_ok);
                self.raw_sent.insert(tx.id, raw.clone());
                let (d, b64) = Self::payload_fields(&tx.enc, &raw);
                let r = self.block_call(
                    "brc20_transact",
                    json!({"raw_tx_data": d, "base64_raw_tx_data": b64, "timestamp": ts, "hash": hash_param,
                           "tx_idx": tx_idx, "inscription_id": insc, "inscription_byte_len": byte_len,
                           "op_return_tx_id": txid_for(tx.id)}),
                );
                if let Resp::Ok(v) = &r {
                    if let Some(arr) = v.as_array() {
                        for rc in arr.clone() {
                            let kind = if deploy.is_some() { "store" } else { "" };
                            self.absorb_receipt(&rc, &insc, kind);
                            self.bump_open();
                        }
                    }
                }
                r
            }
            TxKind::Resend { of } => {
                let raw = self.raw_sent.get(of).cloned().unwrap_or_else(|| vec![0xc0]);
                let (d, b64) = Self::payload_fields(&tx.enc, &raw);
                let r = self.block_call(
                    "brc20_transact",
                    json!({"raw_tx_data": d, "base64_raw_tx_data": b64, "timestamp": ts, "hash": hash_param,
                           "tx_idx": tx_idx, "inscription_id": insc, "inscription_byte_len": byte_len,
                           "op_return_tx_id": txid_for(tx.id)}),
                );
                if let Resp::Ok(v) = &r {
                    if let Some(arr) = v.as_array() {
                        for rc in arr.clone() {
                            self.absorb_receipt(&rc, &insc, "");
                            self.bump_open();
                        }
                    }
                }
                r
            }
            TxKind::Deposit { to, ticker, amount: a } => {
                let t = Self::ticker_str(*ticker);
                self.uni.tickers.insert(t.to_string());
                self.uni.addresses.insert(addr_str(&self.who_addr(to)));
                let pk = match to {
                    Who::Pk(i) => pkscript(*i % N_PK),
                    _ => pkscript(0),
                };
                let r = self.block_call(
                    "brc20_deposit",
                    json!({"to_pkscript": pk, "ticker": t, "amount": u256_hex(amount(a)), "timestamp": ts,
                           "hash": hash_param, "tx_idx": tx_idx, "inscription_id": insc}),
                );
                if let Resp::Ok(v) = &r {
                    self.absorb_receipt(&v.clone(), &insc, "");
                    self.bump_open();
                }
                r
            }
            TxKind::Withdraw { from, ticker, amount: a } => {
                let t = Self::ticker_str(*ticker);
                self.uni.tickers.insert(t.to_string());
                let pk = match from {
                    Who::Pk(i) => pkscript(*i % N_PK),
                    _ => pkscript(0),
                };
                let r = self.block_call(
                    "brc20_withdraw",
                    json!({"from_pkscript": pk, "ticker": t, "amount": u256_hex(amount(a)), "timestamp": ts,
                           "hash": hash_param, "tx_idx": tx_idx, "inscription_id": insc}),
                );
                if let Resp::Ok(v) = &r {
                    self.absorb_receipt(&v.clone(), &insc, "");
                    self.bump_open();
                }
                r
            }
        };
        resp
    }

    fn bump_open(&mut self) {
        if let Some(o) = self.open.as_mut() {
            o.txs += 1;
        }
    }

    fn after_call_effects(&mut self, target: &Address, data: &Cd, receipt: &Value) {
        if receipt.get("status").and_then(hex_u64) != Some(1) {
            return;
        }
        if let Cd::CreateChild { kind, .. } = data {
            // child address was stored by the Store contract at slot 0xC0DE (a non-executing getter)
            let r = self.call("eth_getStorageAt", json!([addr_str(target), "0xc0de"]));
            if let Resp::Ok(Value::String(s)) = r {
                if s.len() == 66 && &s[26..] != "0000000000000000000000000000000000000000" {
                    let child = format!("0x{}", &s[26..]);
                    self.uni.addresses.insert(child.clone());
                    if matches!(kind, ChildKind::Store | ChildKind::Probe) {
                        self.book.contracts.push(Contract {
                            addr: child,
                            insc: String::new(),
                            kind: if matches!(kind, ChildKind::Store) { "store".into() } else { "probe".into() },
                        });
                    }
                }
            }
        }
    }

    pub fn account_nonce(&mut self, a: &Address) -> u64 {
        match self.call("eth_getTransactionCount", json!([addr_str(a), "latest"])) {
            Resp::Ok(v) => hex_u64(&v).unwrap_or(0),
            _ => 0,
        }
    }

    /// finalise the open block (or an empty one)
    pub fn finalise(&mut self, ts: u64, hash: &HashMode) -> Resp {
        let (ts, hash_param, count) = self.ensure_open(ts, hash);
        let r = self.block_call(
            "brc20_finaliseBlock",
            json!({"timestamp": ts, "hash": hash_param, "block_tx_count": count}),
        );
        if r.is_ok() {
            let o = self.open.take().unwrap();
            self.finalised(o.height, o.ts, o.calls, o.receipts);
            if let Some(b) = self.chain.last_mut() {
                b.txs = o.sem_txs;
            }
        }
        r
    }

    fn finalised(&mut self, height: u64, ts: u64, calls: Vec<Call>, receipts: Vec<Value>) {
        let hash = match self.call("eth_getBlockByNumber", json!([format!("0x{:x}", height), false])) {
            Resp::Ok(v) => v.get("hash").and_then(|h| h.as_str()).unwrap_or("").to_string(),
            _ => String::new(),
        };
        self.uni.block_hashes.insert(hash.clone());
        self.uni.max_height = self.uni.max_height.max(height);
        self.height = Some(height);
        self.max_finalised = Some(self.max_finalised.map_or(height, |m| m.max(height)));
        self.chain.push(BlockRec { height, hash, ts, calls, receipts, txs: vec![] });
        self.snapshots.insert(height, self.book.clone());
        self.last_ts = ts;
        self.stats.bump("blocks_finalised");
    }

    /// after caches were lost: did the earlier reorg-to-current-height persist that height?
    fn resolve_noop_reorg(&mut self) {
        if let Some(n) = self.noop_reorg_at.take() {
            if let Resp::Ok(v) = self.call("eth_blockNumber", json!([])) {
                if hex_u64(&v) == Some(n) && self.chain.iter().any(|b| b.height == n) {
                    self.committed = Some(n);
                }
            }
        }
    }

    fn roll_back_to(&mut self, target: Option<u64>) {
        match target {
            None => {
                self.height = None;
                self.chain.clear();
                self.snapshots.clear();
                self.book = Book::default();
            }
            Some(n) => {
                self.height = Some(n);
                self.chain.retain(|b| b.height <= n);
                self.snapshots.retain(|h, _| *h <= n);
                self.book = self.snapshots.get(&n).cloned().unwrap_or_default();
            }
        }
    }

    // ---------------------------------------------------------------- operations
    pub fn exec(&mut self, idx: usize, op: &Op) -> Vec<Resp> {
        self.op_index = idx;
        let log_start = self.log.len();
        self.stats.bump(&format!("op_{}", op.kind_name()));
        match op {
            Op::Init { hash } => {
                let height = &self.next_height();
                let hp = Self::hash_param(hash);
                let call = Call {
                    method: "brc20_initialise".into(),
                    params: json!({"genesis_hash": hp, "genesis_timestamp": BASE_TS, "genesis_height": height}),
                };
                let had_block = self.open.is_some();
                let r = self.call(&call.method, call.params.clone());
                // environment: no Bitcoin node. The genesis block exists iff the call got that far.
                let env_err = r.err_message().map(|m| m.contains("Bitcoin RPC status check failed")).unwrap_or(false);
                if (r.is_ok() || env_err) && !had_block && self.height.map_or(true, |h| h < *height) {
                    let exists = matches!(
                        self.call("eth_getBlockByNumber", json!([format!("0x{:x}", height), false])),
                        Resp::Ok(_)
                    );
                    if exists && self.chain.iter().all(|b| b.height != *height) {
                        self.uni.inscription_ids.insert("BRC20_CONTROLLER_INIT".into());
                        self.uni.addresses.insert(CONTROLLER.into());
                        self.uni.addresses.insert(INDEXER.into());
                        let rc = self.call("brc20_getTxReceiptByInscriptionId", json!(["BRC20_CONTROLLER_INIT"]));
                        let receipts = match &rc {
                            Resp::Ok(v) if !v.is_null() => {
                                if let Some(h) = v.get("transactionHash").and_then(|x| x.as_str()) {
                                    self.uni.tx_hashes.insert(h.to_string());
                                }
                                vec![json!({"insc": "BRC20_CONTROLLER_INIT", "own": true, "receipt": v})]
                            }
                            _ => vec![],
                        };
                        self.finalised(*height, BASE_TS, vec![call], receipts);
                    }
                }
            }
            Op::Mine { n } => {
                let ts = self.last_ts;
                let r = self.call("brc20_mine", json!({"block_count": n, "timestamp": ts}));
                if r.is_ok() {
                    for _ in 0..*n {
                        let h = self.next_height();
                        self.finalised(h, ts, vec![Call { method: "brc20_mine".into(), params: json!({"block_count": 1, "timestamp": ts}) }], vec![]);
                    }
                }
            }
            Op::Block { ts, hash, txs, finalise } => {
                let ts = BASE_TS + *ts;
                for tx in txs {
                    let r = self.exec_tx(ts, hash, tx);
                    match &r {
                        Resp::Ok(_) => self.stats.bump("tx_ok"),
                        Resp::Err { .. } => self.stats.bump("tx_rejected"),
                        Resp::Panic(_) => self.stats.bump("tx_panic"),
                    }
                }
                if *finalise {
                    self.finalise(ts, hash);
                }
            }
            Op::Commit => {
                let r = self.call("brc20_commitToDatabase", json!([]));
                if r.is_ok() {
                    self.committed = self.height;
                    self.noop_reorg_at = None;
                    self.stats.bump("commits_ok");
                    self.note_committed_parked();
                }
            }
            Op::ClearCaches => {
                let r = self.call("brc20_clearCaches", json!([]));
                if r.is_ok() {
                    self.open = None;
                    self.resolve_noop_reorg();
                    let c = self.committed;
                    if self.height != c {
                        self.stats.bump("clear_lost_blocks");
                    }
                    self.roll_back_to(c);
                }
            }
            Op::Restart { commit_first } => {
                if *commit_first {
                    let r = self.call("brc20_commitToDatabase", json!([]));
                    if r.is_ok() {
                        self.committed = self.height;
                        self.stats.bump("commits_ok");
                        self.note_committed_parked();
                    }
                }
                self.inst.close();
                if let Err(e) = self.inst.reopen() {
                    self.log.push(CallRec {
                        op_index: idx,
                        call: Call { method: "<reopen>".into(), params: Value::Null },
                        resp: Resp::Err { code: -9, message: e, data: None },
                    });
                }
                self.open = None;
                self.resolve_noop_reorg();
                let c = self.committed;
                if self.height != c {
                    self.stats.bump("restart_lost_blocks");
                }
                self.roll_back_to(c);
            }
            Op::Reorg { back } => {
                let h = self.height.unwrap_or(0) as i64;
                let target = (h - *back).max(0) as u64;
                self.reorg_to(target);
            }
            Op::Read(r) => {
                self.exec_read(r);
            }
            Op::Resubmit { n, extra_first } => {
                if self.open.is_none() && !self.orphaned.is_empty() {
                    let blocks: Vec<Vec<Tx>> = self.orphaned.drain(..).take(*n as usize).collect();
                    self.orphaned.clear();
                    for (bi, mut txs) in blocks.into_iter().enumerate() {
                        self.resubmit_counter += 1;
                        if *extra_first && bi == 0 {
                            // one more transaction of the first sender in front: nonces (and with them the
                            // addresses of re-deployed contracts) shift
                            let sender = txs.iter().find_map(|t| match &t.kind {
                                TxKind::Deploy { sender, .. } | TxKind::Call { sender, .. } => Some(*sender),
                                _ => None,
                            });
                            if let Some(sender) = sender {
                                txs.insert(0, Tx {
                                    id: 9_000_000 + self.resubmit_counter,
                                    kind: TxKind::Call { sender, target: Target::Dead, by_inscription: false, data: Cd::Empty },
                                    len: LenPolicy::Generous,
                                    enc: Enc::Hex,
                                });
                            }
                        }
                        let ts = self.last_ts + 1;
                        let hash = HashMode::Explicit(9_500_000 + self.resubmit_counter);
                        for tx in &txs {
                            let r = self.exec_tx(ts, &hash, tx);
                            match &r {
                                Resp::Ok(_) => self.stats.bump("tx_ok"),
                                Resp::Err { .. } => self.stats.bump("tx_rejected"),
                                Resp::Panic(_) => self.stats.bump("tx_panic"),
                            }
                        }
                        self.finalise(ts, &hash);
                        self.stats.bump("resubmitted_blocks");
                    }
                }
            }
            Op::Bad(b) => {
                self.exec_bad(b);
            }
        }
        self.log[log_start..].iter().map(|c| c.resp.clone()).collect()
    }

    pub fn reorg_to(&mut self, target: u64) -> Resp {
        self.reorg_targets.push(target);
        let r = self.call("brc20_reorg", json!({"latest_valid_block_number": target}));
        if r.is_ok() {
            // an accepted reorg means nothing had been accepted into a block under construction; what that block held
            // (parked transactions, stamped with a height above the target) is rolled back with everything else
            self.committed_parked.clear();
            if self.open.as_ref().map_or(false, |o| o.txs == 0) {
                self.open = None;
            }
            if let Some(h) = self.height {
                if target < h {
                    self.stats.bump(&format!("reorg_depth_{}", h - target));
                    self.orphaned = self.chain.iter().filter(|b| b.height > target).map(|b| b.txs.clone()).filter(|t| !t.is_empty()).collect();
                    self.roll_back_to(Some(target));
                    // a reorg commits: everything up to target is now durable
                    self.committed = Some(target);
                } else {
                    self.stats.bump("reorg_noop");
                    if self.committed != Some(h) {
                        self.noop_reorg_at = Some(h);
                    }
                }
            }
        } else {
            self.stats.bump("reorg_refused");
        }
        r
    }

    pub fn eth_call_obj(&self, from: &Who, to: &Option<Target>, data: &Cd, deploy: &Option<DeployProg>) -> Value {
        let bytes = match deploy {
            Some(p) => self.deploy_bytes(p),
            None => self.cd_bytes(data),
        };
        let mut o = json!({"from": addr_str(&self.who_addr(from)), "data": hex0x(&bytes)});
        if deploy.is_none() {
            if let Some(t) = to {
                o["to"] = json!(addr_str(&self.target_addr(t)));
            }
        }
        o
    }

    pub fn exec_read(&mut self, r: &ReadOp) -> Vec<Resp> {
        self.exec_read_at(r, None)
    }

    fn block_sel(&self, sel: &BlockSel) -> Value {
        let h = self.height.unwrap_or(0);
        match sel {
            BlockSel::Latest => json!("latest"),
            BlockSel::Pending => json!("pending"),
            BlockSel::Earliest => json!("earliest"),
            BlockSel::Back(n) => json!(format!("0x{:x}", h.saturating_sub(*n as u64))),
            BlockSel::Ahead(n) => json!(format!("0x{:x}", h + *n as u64)),
            BlockSel::DecimalBack(n) => json!(format!("{}", h.saturating_sub(*n as u64))),
            BlockSel::Garbage => json!("0xzz"),
        }
    }

    fn exec_read_at(&mut self, r: &ReadOp, block: Option<Value>) -> Vec<Resp> {
        let mut out = vec![];
        let blk = block.clone().unwrap_or(Value::Null);
        match r {
            ReadOp::AtBlock { sel, read } => {
                let b = self.block_sel(sel);
                return self.exec_read_at(read, Some(b));
            }
            ReadOp::BtcOverrides => {
                let call = json!({"from": DEAD, "to": format!("0x{:040x}", 0xfd), "data": hex0x(&crate::props::c09::btc_details_calldata())});
                out.push(self.call(
                    "eth_callMany",
                    json!([[call], blk, {"opReturnTxIds": [txid_for(9100)], "bitcoinTxHexes": Value::Object(crate::props::c09::btc_hexes())}]),
                ));
            }
            ReadOp::EthCall { from, to, data, deploy } => {
                let o = self.eth_call_obj(from, to, data, deploy);
                out.push(self.call("eth_call", if block.is_some() { json!([o, blk]) } else { json!([o]) }));
            }
            ReadOp::EthCallMany { calls, overrides } => {
                let cs: Vec<Value> = calls.iter().map(|(f, t, d)| self.eth_call_obj(f, t, d, &None)).collect();
                let n = cs.len();
                if *overrides {
                    // the list of transaction ids may be as long as the call list, shorter, or empty
                    let keep = match (n + cs.iter().map(|c| c["data"].as_str().map_or(0, |d| d.len())).sum::<usize>()) % 3 {
                        0 => n,
                        1 => 0,
                        _ => n.saturating_sub(1),
                    };
                    let txids: Vec<String> = (0..keep).map(|i| txid_for(9000 + i as u32)).collect();
                    out.push(self.call(
                        "eth_callMany",
                        json!([cs, blk, {"opReturnTxIds": txids, "bitcoinTxHexes": {}}]),
                    ));
                } else {
                    out.push(self.call("eth_callMany", if block.is_some() { json!([cs, blk]) } else { json!([cs]) }));
                }
            }
            ReadOp::EstimateGas { from, to, data } => {
                let o = self.eth_call_obj(from, to, data, &None);
                out.push(self.call("eth_estimateGas", if block.is_some() { json!([o, blk]) } else { json!([o]) }));
            }
            ReadOp::EstimateGasMany { calls } => {
                let cs: Vec<Value> = calls.iter().map(|(f, t, d)| self.eth_call_obj(f, t, d, &None)).collect();
                out.push(self.call("eth_estimateGasMany", if block.is_some() { json!([cs, blk]) } else { json!([cs]) }));
            }
            ReadOp::Balance { who, ticker } => {
                let pk = match who {
                    Who::Pk(i) => pkscript(*i % N_PK),
                    _ => pkscript(0),
                };
                out.push(self.call("brc20_balance", json!({"pkscript": pk, "ticker": Self::ticker_str(*ticker)})));
            }
            ReadOp::Getters => {
                let h = self.height.unwrap_or(0);
                out.push(self.call("eth_blockNumber", json!([])));
                out.push(self.call("eth_getBlockByNumber", json!([format!("0x{:x}", h), true])));
                out.push(self.call("debug_getRawBlock", json!([format!("0x{:x}", h)])));
                out.push(self.call("txpool_content", json!([])));
                out.push(self.call(
                    "eth_getLogs",
                    json!([{"fromBlock": format!("0x{:x}", h.saturating_sub(3)), "toBlock": format!("0x{:x}", h)}]),
                ));
                out.push(self.call("debug_getBlockTraceString", json!([format!("0x{:x}", h)])));
            }
        }
        out
    }

    fn simple_call_params(&self, ts: u64, hash: &str, tx_idx: u64, tag: &str) -> Value {
        json!({"from_pkscript": pkscript(0), "contract_address": DEAD, "contract_inscription_id": Value::Null,
               "data": "0x01", "base64_data": Value::Null, "timestamp": ts, "hash": hash, "tx_idx": tx_idx,
               "inscription_id": format!("bad-{}-{}", tag, self.op_index), "inscription_byte_len": GENEROUS_LEN,
               "op_return_tx_id": ZERO_HASH})
    }

    /// out-of-protocol / malformed call relative to the current state. Every call made here is
    /// expected to be rejected; the property code decides what a non-rejection means.
    pub fn exec_bad(&mut self, b: &BadOp) -> Resp {
        let (ts, hash, txs) = match &self.open {
            Some(o) => (o.ts, o.hash_param.clone(), o.txs),
            None => (self.last_ts + 1, ZERO_HASH.to_string(), 0),
        };
        // the engine has a block under construction only once a transaction was accepted into it
        let mid = self.open.as_ref().map_or(false, |o| o.txs > 0);
        let tag = format!("{:?}", b);
        let tag = tag.split('(').next().unwrap_or("bad").to_string();
        self.stats.bump(&format!("bad_{}{}", tag, if mid { "_mid" } else { "_boundary" }));
        match b {
            BadOp::WrongTxIdx(d) => {
                let idx = if *d == 0 { txs + 1 } else { (txs as i64 + *d).max(0) as u64 };
                let idx = if idx == txs { txs + 1 } else { idx };
                self.call("brc20_call", self.simple_call_params(ts, &hash, idx, &tag))
            }
            BadOp::HugeTxIdx => self.call("brc20_call", self.simple_call_params(ts, &hash, u64::MAX, &tag)),
            BadOp::OtherTimestamp => {
                if !mid {
                    return Resp::Ok(Value::Null);
                }
                self.call("brc20_call", self.simple_call_params(ts + 1, &hash, txs, &tag))
            }
            BadOp::OtherHash => {
                if !mid {
                    return Resp::Ok(Value::Null);
                }
                let other = block_hash_for(0xFFFF_0000 + self.op_index as u32);
                self.call("brc20_call", self.simple_call_params(ts, &other, txs, &tag))
            }
            BadOp::ZeroIdxOtherHash => {
                if !mid {
                    return Resp::Ok(Value::Null);
                }
                let other = block_hash_for(0xFFFE_0000 + self.op_index as u32);
                self.call("brc20_call", self.simple_call_params(ts, &other, 0, &tag))
            }
            BadOp::ZeroIdxExistingHash => {
                let Some(existing) = self.chain.last().map(|b| b.hash.clone()) else {
                    return Resp::Ok(Value::Null);
                };
                if !mid {
                    return Resp::Ok(Value::Null);
                }
                self.call("brc20_call", self.simple_call_params(ts, &existing, 0, &tag))
            }
            BadOp::OtherHashAndTimestamp => {
                if !mid {
                    return Resp::Ok(Value::Null);
                }
                let other = block_hash_for(0xFFFD_0000 + self.op_index as u32);
                self.call("brc20_call", self.simple_call_params(ts + 1, &other, txs, &tag))
            }
            BadOp::WrongIdxOtherTimestamp => {
                if !mid {
                    return Resp::Ok(Value::Null);
                }
                self.call("brc20_call", self.simple_call_params(ts + 1, &hash, txs + 1, &tag))
            }
            BadOp::FinaliseWrongCount(d) => {
                let c = (txs as i64 + if *d == 0 { 1 } else { *d }).max(0) as u64;
                let c = if c == txs { txs + 1 } else { c };
                self.call("brc20_finaliseBlock", json!({"timestamp": ts, "hash": hash, "block_tx_count": c}))
            }
            BadOp::ExistingHash => {
                let Some(existing) = self.chain.last().map(|b| b.hash.clone()) else {
                    return Resp::Ok(Value::Null);
                };
                if mid {
                    return Resp::Ok(Value::Null);
                }
                self.call("brc20_call", self.simple_call_params(ts, &existing, 0, &tag))
            }
            BadOp::InitForeignGenesis => {
                let Some(g) = self.chain.first().map(|b| b.height) else {
                    return Resp::Ok(Value::Null);
                };
                self.call(
                    "brc20_initialise",
                    json!({"genesis_hash": block_hash_for(0xEEEE_0001), "genesis_timestamp": BASE_TS, "genesis_height": g}),
                )
            }
            BadOp::InitWrongHeight => {
                let Some(h) = self.height else {
                    return Resp::Ok(Value::Null);
                };
                self.call(
                    "brc20_initialise",
                    json!({"genesis_hash": block_hash_for(0xEEEE_0002), "genesis_timestamp": BASE_TS, "genesis_height": h + 5}),
                )
            }
            BadOp::CommitMidBlock => {
                if !mid {
                    return Resp::Ok(Value::Null);
                }
                self.call("brc20_commitToDatabase", json!([]))
            }
            BadOp::ReorgMidBlock => {
                if !mid {
                    return Resp::Ok(Value::Null);
                }
                let t = self.height.unwrap_or(0).saturating_sub(1);
                self.call("brc20_reorg", json!({"latest_valid_block_number": t}))
            }
            BadOp::MineMidBlock => {
                if !mid {
                    return Resp::Ok(Value::Null);
                }
                self.call("brc20_mine", json!({"block_count": 1, "timestamp": ts}))
            }
            BadOp::BothEncodings => {
                let mut p = self.simple_call_params(ts, &hash, txs, &tag);
                p["base64_data"] = json!("AAE");
                self.call("brc20_call", p)
            }
            BadOp::BothEncodingsHexBad => {
                let mut p = self.simple_call_params(ts, &hash, txs, &tag);
                p["data"] = json!("0xnot-hex-at-all");
                p["base64_data"] = json!("AAE");
                self.call("brc20_call", p)
            }
            BadOp::BothEncodingsB64Bad => {
                let mut p = self.simple_call_params(ts, &hash, txs, &tag);
                p["base64_data"] = json!("!!!!");
                self.call("brc20_call", p)
            }
            BadOp::FinaliseExistingHash => {
                if mid {
                    return Resp::Ok(Value::Null);
                }
                // an older block's hash (not the tip's), empty block
                let Some(existing) = self.chain.iter().rev().nth(2).or(self.chain.first()).map(|b| b.hash.clone()) else {
                    return Resp::Ok(Value::Null);
                };
                self.call("brc20_finaliseBlock", json!({"timestamp": ts, "hash": existing, "block_tx_count": 0}))
            }
            BadOp::NeitherEncoding => {
                let mut p = self.simple_call_params(ts, &hash, txs, &tag);
                p["data"] = Value::Null;
                self.call("brc20_call", p)
            }
            BadOp::OddPkscript => {
                let mut p = self.simple_call_params(ts, &hash, txs, &tag);
                p["from_pkscript"] = json!("abc");
                self.call("brc20_call", p)
            }
            BadOp::NonHexPkscript => {
                let mut p = self.simple_call_params(ts, &hash, txs, &tag);
                p["from_pkscript"] = json!("zz11");
                self.call("brc20_deploy", {
                    p.as_object_mut().unwrap().remove("contract_address");
                    p.as_object_mut().unwrap().remove("contract_inscription_id");
                    p
                })
            }
            BadOp::UndecodableTx => self.call(
                "brc20_transact",
                json!({"raw_tx_data": "0xc0ffee", "base64_raw_tx_data": Value::Null, "timestamp": ts, "hash": hash,
                       "tx_idx": txs, "inscription_id": format!("bad-{}-{}", tag, self.op_index),
                       "inscription_byte_len": GENEROUS_LEN, "op_return_tx_id": ZERO_HASH}),
            ),
            BadOp::WrongChainTx | BadOp::FarFutureTx | BadOp::StaleTx => {
                let saddr = signer(0).address();
                let cur = self.account_nonce(&saddr);
                let (nonce, chain_ok) = match b {
                    BadOp::WrongChainTx => (cur, false),
                    BadOp::FarFutureTx => (cur + 10, true),
                    _ => {
                        if cur == 0 {
                            return Resp::Ok(Value::Null);
                        }
                        (cur - 1, true)
                    }
                };
                let raw = self.sign_tx(0, nonce, Some(parse_addr(DEAD)), vec![1], chain_ok);
                self.call(
                    "brc20_transact",
                    json!({"raw_tx_data": hex0x(&raw), "base64_raw_tx_data": Value::Null, "timestamp": ts, "hash": hash,
                           "tx_idx": txs, "inscription_id": format!("bad-{}-{}", tag, self.op_index),
                           "inscription_byte_len": GENEROUS_LEN, "op_return_tx_id": ZERO_HASH}),
                )
            }
            BadOp::ReorgAboveHeight => {
                if mid {
                    return Resp::Ok(Value::Null);
                }
                let t = self.height.unwrap_or(0) + 1;
                self.call("brc20_reorg", json!({"latest_valid_block_number": t}))
            }
            BadOp::ReorgTooDeep => {
                if mid {
                    return Resp::Ok(Value::Null);
                }
                let Some(m) = self.max_finalised else {
                    return Resp::Ok(Value::Null);
                };
                if m < 11 {
                    return Resp::Ok(Value::Null);
                }
                self.call("brc20_reorg", json!({"latest_valid_block_number": m - 11}))
            }
        }
    }
}

/// indexer-side bookkeeping without the instance (for twins and for re-feeding lost blocks)
#[derive(Clone, Debug)]
pub struct Saved {
    pub committed_parked: Vec<Call>,
    pub height: Option<u64>,
    pub open: Option<Open>,
    pub chain: Vec<BlockRec>,
    pub book: Book,
    pub snapshots: BTreeMap<u64, Book>,
    pub committed: Option<u64>,
    pub max_finalised: Option<u64>,
    pub last_ts: u64,
}

impl World {
    pub fn save(&self) -> Saved {
        Saved {
            committed_parked: self.committed_parked.clone(),
            height: self.height,
            open: self.open.clone(),
            chain: self.chain.clone(),
            book: self.book.clone(),
            snapshots: self.snapshots.clone(),
            committed: self.committed,
            max_finalised: self.max_finalised,
            last_ts: self.last_ts,
        }
    }
    /// a commit was accepted: what the block under construction holds (parked transactions only) is durable now
    fn note_committed_parked(&mut self) {
        self.committed_parked = match &self.open {
            Some(o) if o.txs == 0 => o.calls.clone(),
            _ => vec![],
        };
        if !self.committed_parked.is_empty() {
            self.stats.bump("probe_commit_with_parked_only_open_block");
        }
    }
    pub fn restore(&mut self, s: Saved) {
        self.committed_parked = s.committed_parked;
        self.height = s.height;
        self.open = s.open;
        self.chain = s.chain;
        self.book = s.book;
        self.snapshots = s.snapshots;
        self.committed = s.committed;
        self.max_finalised = s.max_finalised;
        self.last_ts = s.last_ts;
    }
    /// a World around another instance that is believed to be in the same state as `self`
    pub fn twin(&self, inst: Instance) -> World {
        let mut w = World::new(inst, self.cfg.clone());
        w.restore(self.save());
        w.uni = self.uni.clone();
        w
    }
}
