//! Scenario = list of semantic operations (DESIGN 3.1). Concrete tx_idx / heights / hashes are filled in
//! by the World at execution time so that dropping operations during minimisation keeps the protocol valid.
#![allow(dead_code)]
use serde::{Deserialize, Serialize};

#[derive(Clone, Debug, Serialize, Deserialize, PartialEq)]
pub enum Who {
    Pk(u8),
    Signer(u8),
    Contract(u8),
    Indexer,
    Zero,
}

#[derive(Clone, Debug, Serialize, Deserialize, PartialEq)]
pub enum Target {
    /// k-th live contract deployed by this scenario (mod count); dead address if none
    Contract(u8),
    Controller,
    /// token contract of ticker index t (dead address if not created yet)
    Token(u8),
    Precompile(u8),
    Dead,
    Addr(String),
}

#[derive(Clone, Debug, Serialize, Deserialize, PartialEq)]
pub enum Amount {
    Small(u64),
    Max,
    MaxMinus(u64),
}

#[derive(Clone, Debug, Serialize, Deserialize, PartialEq)]
pub enum Erc {
    Transfer { to: Who, amount: Amount },
    Approve { spender: Who, amount: Amount },
    TransferFrom { from: Who, to: Who, amount: Amount },
    Mint { to: Who, amount: Amount },
    Burn { from: Who, amount: Amount },
    /// owner-only overloads on the token: approve(owner,spender,v) / transferFrom(spender,from,to,v)
    OwnerApprove { owner: Who, spender: Who, amount: Amount },
    OwnerTransferFrom { spender: Who, from: Who, to: Who, amount: Amount },
    BalanceOf { who: Who },
    TotalSupply,
}

#[derive(Clone, Debug, Serialize, Deserialize, PartialEq)]
pub enum ChildKind {
    Store,
    Probe,
    Empty,
    Reverting,
}

#[derive(Clone, Debug, Serialize, Deserialize, PartialEq)]
pub enum Cd {
    Empty,
    Sstore(Vec<(u64, u64)>),
    Log { topics: Vec<u64>, data_len: u8 },
    Revert(u8),
    Echo(u8),
    Invalid,
    Spin,
    Sload(u64),
    SelfDestruct(Who),
    CreateChild { salt: Option<u64>, kind: ChildKind },
    CallOther { kind: u8, target: Target, inner: Box<Cd> },
    Multi(Vec<Cd>),
    Burn(u16),
    /// returns NUMBER, BLOCKHASH(NUMBER-1), CHAINID
    BlockInfo,
    /// ABI call data for the Bitcoin transaction-details helper (0xfd) about a fixed transaction
    BtcDetails,
    Probe(Vec<u16>),
    /// controller-level call (ticker is the first argument)
    Ctl { ticker: u8, call: Erc },
    /// token-level call (plain ERC-20 ABI)
    Tok(Erc),
    Raw(String),
}

#[derive(Clone, Debug, Serialize, Deserialize, PartialEq)]
pub enum DeployProg {
    Store,
    Probe,
    /// deploy with empty data (engine turns it into a call to the invalid address)
    Empty,
    /// init code that reverts
    Reverting,
    /// init code whose runtime code is the block number at creation
    NumberCode,
    Raw(String),
}

/// how inscription_byte_len is chosen
#[derive(Clone, Debug, Serialize, Deserialize, PartialEq)]
pub enum LenPolicy {
    Generous,
    Exact(u64),
    Zero,
}

/// which field carries the payload
#[derive(Clone, Debug, Serialize, Deserialize, PartialEq)]
pub enum Enc {
    Hex,
    B64Raw { pad: u8 },
    B64Nada { pad: u8 },
    B64Zstd { pad: u8 },
}

#[derive(Clone, Debug, Serialize, Deserialize, PartialEq)]
pub enum NonceSpec {
    /// nonce = model nonce of the signer + k (k may be negative: stale)
    Rel(i64),
    Abs(u64),
}

#[derive(Clone, Debug, Serialize, Deserialize, PartialEq)]
pub enum TxKind {
    Deploy { sender: u8, prog: DeployProg },
    Call { sender: u8, target: Target, by_inscription: bool, data: Cd },
    Transact { signer: u8, nonce: NonceSpec, to: Option<Target>, data: Cd, deploy: Option<DeployProg>, chain_ok: bool },
    /// the byte-identical signed transaction that was sent as transaction `of` (a re-inscription)
    Resend { of: u32 },
    Deposit { to: Who, ticker: u8, amount: Amount },
    Withdraw { from: Who, ticker: u8, amount: Amount },
}

#[derive(Clone, Debug, Serialize, Deserialize, PartialEq)]
pub struct Tx {
    /// unique id inside the scenario: inscription id and op_return txid derive from it
    pub id: u32,
    pub kind: TxKind,
    pub len: LenPolicy,
    pub enc: Enc,
}

#[derive(Clone, Debug, Serialize, Deserialize, PartialEq)]
pub enum HashMode {
    Zero,
    Explicit(u32),
}

#[derive(Clone, Debug, Serialize, Deserialize, PartialEq)]
pub enum ReadOp {
    /// full observation compared before/after by the property
    EthCall { from: Who, to: Option<Target>, data: Cd, deploy: Option<DeployProg> },
    EthCallMany { calls: Vec<(Who, Option<Target>, Cd)>, overrides: bool },
    EstimateGas { from: Who, to: Option<Target>, data: Cd },
    EstimateGasMany { calls: Vec<(Who, Option<Target>, Cd)> },
    Balance { who: Who, ticker: u8 },
    Getters,
    /// eth_callMany to the Bitcoin transaction-details helper with raw-transaction overrides for it and its parent
    BtcOverrides,
    /// an executing read with an explicit block parameter (tag, past / future height, garbage)
    AtBlock { sel: BlockSel, read: Box<ReadOp> },
}

#[derive(Clone, Debug, Serialize, Deserialize, PartialEq)]
pub enum BlockSel {
    Latest,
    Pending,
    Earliest,
    /// hex height `tip - n`
    Back(u8),
    /// hex height `tip + n` (does not exist yet)
    Ahead(u8),
    /// decimal height `tip - n`
    DecimalBack(u8),
    Garbage,
}

#[derive(Clone, Debug, Serialize, Deserialize, PartialEq)]
pub enum BadOp {
    WrongTxIdx(i64),
    HugeTxIdx,
    OtherTimestamp,
    OtherHash,
    FinaliseWrongCount(i64),
    ExistingHash,
    InitForeignGenesis,
    InitWrongHeight,
    CommitMidBlock,
    ReorgMidBlock,
    MineMidBlock,
    BothEncodings,
    /// both fields present, one of them undecodable
    BothEncodingsHexBad,
    BothEncodingsB64Bad,
    NeitherEncoding,
    /// finalise an empty block under a hash that already belongs to an older block
    FinaliseExistingHash,
    /// two fields wrong at once (mid-block): index 0 with another / an existing hash, hash and timestamp, index and timestamp
    ZeroIdxOtherHash,
    ZeroIdxExistingHash,
    OtherHashAndTimestamp,
    WrongIdxOtherTimestamp,
    OddPkscript,
    NonHexPkscript,
    UndecodableTx,
    WrongChainTx,
    FarFutureTx,
    StaleTx,
    ReorgAboveHeight,
    ReorgTooDeep,
}

#[derive(Clone, Debug, Serialize, Deserialize, PartialEq)]
pub enum Op {
    /// brc20_initialise at the next height
    Init { hash: HashMode },
    Mine { n: u64 },
    Block { ts: u64, hash: HashMode, txs: Vec<Tx>, finalise: bool },
    Commit,
    ClearCaches,
    Restart { commit_first: bool },
    /// target = current height - back  (negative back => above the tip)
    Reorg { back: i64 },
    Read(ReadOp),
    Bad(BadOp),
    /// what an indexer does after a chain reorganisation: the transactions of the most recently orphaned
    /// blocks are submitted again (same inscription ids, same payloads) in `n` new blocks, optionally with
    /// another transaction of the first sender in front (so that nonce-derived addresses move)
    Resubmit { n: u8, extra_first: bool },
}

#[derive(Clone, Debug, Serialize, Deserialize, PartialEq)]
pub struct Scenario {
    pub config: crate::inst::SimConfig,
    pub hash_seed: u64,
    pub ops: Vec<Op>,
}

impl Op {
    pub fn kind_name(&self) -> &'static str {
        match self {
            Op::Init { .. } => "init",
            Op::Mine { .. } => "mine",
            Op::Block { .. } => "block",
            Op::Commit => "commit",
            Op::ClearCaches => "clearCaches",
            Op::Restart { .. } => "restart",
            Op::Reorg { .. } => "reorg",
            Op::Read(_) => "read",
            Op::Bad(_) => "bad",
            Op::Resubmit { .. } => "resubmit",
        }
    }
}
