//! C09 - no request can crash, hang or wedge the server.
use super::common::*;
use crate::framework::{sha_hex, Prop, RunOut, Tier, Violation};
use crate::gen::{CommitSched, Gen, Profile};
use crate::inst::{scratch_root, Instance, Resp};
use crate::ops::*;
use crate::programs as pg;
use crate::rng::Rng;
use crate::world::{hex0x, pkscript, sha, signer, World, CONTROLLER, DEAD, ZERO_HASH};
use alloy::primitives::U256;
use alloy_sol_types::{sol, SolCall};
use base64::Engine as _;
use serde_json::{json, Value};
use sha2::{Digest, Sha256};

pub struct C09;

sol! {
    function getLockedPkscript(bytes pkscript, uint256 lock_block_count) returns (bytes locked_pkscript);
    function verify(bytes pkscript, bytes message, bytes signature) returns (bool success);
    function getTxDetails(bytes32 txid) returns (uint256 block_height);
    function getLastSatLocation(bytes32 txid, uint256 vout, uint256 sat) returns (bytes32 last_txid);
    function getTxId() returns (bytes32);
}

fn profile(rng: &mut Rng) -> Profile {
    let mut p = Profile::default();
    p.blocks = (0, 8);
    p.txs = (0, 3);
    p.commit = CommitSched::Random(1, 3);
    p.p_reorg = (1, 6);
    p.p_mine = (1, 6);
    p.w_spin = 0;
    p.signed_chaos = rng.chance(1, 2);
    p
}

fn sha256d(b: &[u8]) -> [u8; 32] {
    let a = Sha256::digest(b);
    Sha256::digest(a).into()
}

/// two raw bitcoin transactions: A (coinbase-like input) and B spending A:0; returns (txid_display, raw)
pub fn btc_txs() -> Vec<([u8; 32], Vec<u8>)> {
    let mk = |prev: [u8; 32], vout: u32, outs: &[(u64, &[u8])]| -> Vec<u8> {
        let mut t = vec![];
        t.extend_from_slice(&2u32.to_le_bytes());
        t.push(1);
        t.extend_from_slice(&prev);
        t.extend_from_slice(&vout.to_le_bytes());
        t.push(0);
        t.extend_from_slice(&0xffff_fffeu32.to_le_bytes());
        t.push(outs.len() as u8);
        for (v, pk) in outs {
            t.extend_from_slice(&v.to_le_bytes());
            t.push(pk.len() as u8);
            t.extend_from_slice(pk);
        }
        t.extend_from_slice(&0u32.to_le_bytes());
        t
    };
    let a = mk([0u8; 32], 0xffff_ffff, &[(5000, &[0x51]), (700, &[0x00, 0x14, 1, 2, 3, 4, 5, 6, 7, 8, 9, 10, 11, 12, 13, 14, 15, 16, 17, 18, 19, 20])]);
    let a_hash = sha256d(&a);
    let b = mk(a_hash, 0, &[(3000, &[0x51]), (1500, &[0x52])]);
    let disp = |h: [u8; 32]| {
        let mut d = h;
        d.reverse();
        d
    };
    vec![(disp(a_hash), a), (disp(sha256d(&b)), b)]
}

/// ABI call data `getTxDetails(txid of the spending transaction)` for the 0xfd helper, and the override map that
/// supplies both raw transactions (used by C10: an override given to a read must not reach a later transaction)
pub fn btc_details_calldata() -> Vec<u8> {
    getTxDetailsCall::new((btc_txs()[1].0.into(),)).abi_encode()
}
pub fn btc_hexes() -> serde_json::Map<String, Value> {
    let mut hexes = serde_json::Map::new();
    for (id, raw) in &btc_txs() {
        hexes.insert(hex0x(id), json!(hex0x(raw)));
    }
    hexes
}

fn b64(prefix: u8, body: &[u8], pad: &str) -> String {
    let mut d = vec![prefix];
    d.extend_from_slice(body);
    format!("{}{}", base64::prelude::BASE64_STANDARD_NO_PAD.encode(d), pad)
}

/// hostile string values for payload / hex / base64 fields
fn hostile_strings(rng: &mut Rng) -> Value {
    match rng.below(29) {
        0 => json!(""),
        1 => json!("="),
        2 => json!("=="),
        3 => json!("A"),
        4 => json!("AA"),
        5 => json!("AA="),
        6 => json!("0x"),
        7 => json!("0x0"),
        8 => json!("0xabc"),
        9 => json!("0xzz"),
        10 => json!("zz"),
        11 => json!(" "),
        12 => json!("\u{0}"),
        13 => json!(b64(0, &[], "")),
        14 => json!(b64(1, &[], "")),
        15 => json!(b64(2, &[], "")),
        16 => json!(b64(3, &[1, 2, 3], "")),
        17 => json!(b64(255, &[], "===")),
        18 => json!(b64(2, &[0x28, 0xb5, 0x2f, 0xfd], "")),
        19 => {
            // zstd bomb: > 1 MB of zeros in a few bytes
            let mut out = vec![0u8; 4096];
            let n = zstd_safe::compress(out.as_mut_slice(), &vec![0u8; (1 << 20) + 4096], 3).unwrap_or(0);
            json!(b64(2, &out[..n], ""))
        }
        20 => json!(b64(1, &nada::encode(vec![0u8; 1 << 20]), "")),
        21 => json!(b64(1, &[0xff, 0xff, 0xff, 0xff, 0xff], "")),
        22 => json!(b64(0, &vec![7u8; 300_000], "=")),
        23 => json!(hex0x(&vec![7u8; 300_000])),
        24 => json!(format!("0x{}", "f".repeat(1000))),
        25 => json!(hex0x(&rng.bytes(40))),
        26 => json!(b64(0, &rng.bytes(30), "")),
        27 => json!("!!!not base64!!!"),
        _ => json!("\u{1F600}"),
    }
}

fn hostile_scalar(rng: &mut Rng) -> Value {
    match rng.below(16) {
        0 => Value::Null,
        1 => json!(true),
        2 => json!(0),
        3 => json!(1),
        4 => json!(-1),
        5 => json!(9007199254740993u64),
        6 => json!(9223372036854775807u64),
        7 => json!(18446744073709551615u64),
        8 => serde_json::from_str("18446744073709551616").unwrap_or(Value::Null),
        9 => json!(1.5),
        10 => json!([]),
        11 => json!({}),
        12 => json!([[[[]]]]),
        _ => hostile_strings(rng),
    }
}

struct Ctx {
    height: u64,
    block_hash: String,
    tx_hash: String,
    contract: String,
    insc: String,
    ts: u64,
    open_txs: u64,
    open_hash: String,
}

/// well-formed parameters for every registered method (array form), to mutate from
fn template(method: &str, c: &Ctx, rng: &mut Rng) -> Value {
    let hx = format!("0x{:x}", c.height);
    let call = json!({"from": DEAD, "to": c.contract, "data": hex0x(&pg::cd_sstore(&[(1, 2)]))});
    let small = rng.below(3);
    match method {
        "brc20_mine" => json!([small, c.ts]),
        // payload through the hex field or through the base64 field
        "brc20_deploy" => {
            if rng.chance(1, 2) {
                json!([pkscript(0), hex0x(&pg::store_initcode()), null, c.ts, c.open_hash, c.open_txs, "c09-insc", 2000, ZERO_HASH])
            } else {
                json!([pkscript(0), null, b64(0, &pg::store_initcode(), ""), c.ts, c.open_hash, c.open_txs, "c09-insc", 2000, ZERO_HASH])
            }
        }
        "brc20_call" => {
            let d = pg::cd_log(&[sha("t")], &[1, 2, 3]);
            if rng.chance(1, 2) {
                json!([pkscript(1), c.contract, null, hex0x(&d), null, c.ts, c.open_hash, c.open_txs, "c09-insc-call", 2000, ZERO_HASH])
            } else {
                json!([pkscript(1), null, c.insc, null, b64(0, &d, "="), c.ts, c.open_hash, c.open_txs, "c09-insc-call", 2000, ZERO_HASH])
            }
        }
        "brc20_transact" => {
            if rng.chance(1, 2) {
                json!(["0xc0", null, c.ts, c.open_hash, c.open_txs, "c09-insc-tx", 2000, ZERO_HASH])
            } else {
                json!([null, b64(0, &[0xc0], ""), c.ts, c.open_hash, c.open_txs, "c09-insc-tx", 2000, ZERO_HASH])
            }
        }
        "brc20_deposit" => json!([pkscript(0), "ordi", "0x10", c.ts, c.open_hash, c.open_txs, "c09-insc-dep"]),
        "brc20_withdraw" => json!([pkscript(0), "ordi", "0x1", c.ts, c.open_hash, c.open_txs, "c09-insc-wd"]),
        "brc20_balance" => json!([pkscript(0), "ordi"]),
        "brc20_initialise" => json!([ZERO_HASH, c.ts, c.height + 1]),
        "brc20_getTxReceiptByInscriptionId" => json!([c.insc]),
        "brc20_getInscriptionIdByTxHash" => json!([c.tx_hash]),
        "brc20_getInscriptionIdByContractAddress" => json!([c.contract]),
        "brc20_finaliseBlock" => json!([c.ts, c.open_hash, c.open_txs]),
        "brc20_reorg" => json!([c.height.saturating_sub(small)]),
        "eth_getBlockByNumber" => json!([hx, true]),
        "eth_getBlockByHash" => json!([c.block_hash, true]),
        "eth_getTransactionCount" => json!([c.contract, "latest"]),
        "eth_getBlockTransactionCountByNumber" | "debug_getBlockTraceString" | "debug_getBlockTraceHash" | "debug_getRawHeader" | "debug_getRawBlock" | "debug_getRawReceipts" => json!([hx]),
        "eth_getBlockTransactionCountByHash" => json!([c.block_hash]),
        "eth_getLogs" => json!([{"fromBlock": format!("0x{:x}", c.height.saturating_sub(2)), "toBlock": hx, "address": c.contract, "topics": [null, [hex0x(&sha("t"))]]}]),
        "eth_call" | "eth_estimateGas" => json!([call, "latest"]),
        // two calls with 0-3 transaction ids (fewer and more ids than calls)
        "eth_callMany" | "eth_estimateGasMany" => json!([[call.clone(), call], null, {"opReturnTxIds": vec![ZERO_HASH; rng.below(4) as usize], "bitcoinTxHexes": {}}]),
        "eth_getStorageAt" => json!([c.contract, "0x1"]),
        "eth_getCode" | "txpool_contentFrom" => json!([c.contract]),
        "eth_getTransactionReceipt" | "debug_traceTransaction" | "eth_getTransactionByHash" => json!([c.tx_hash]),
        "eth_getTransactionByBlockNumberAndIndex" => json!([c.height, 0]),
        "eth_getTransactionByBlockHashAndIndex" => json!([c.block_hash, 0]),
        "eth_getBalance" => json!([c.contract, "latest"]),
        "eth_getUncleCountByBlockNumber" => json!([c.height]),
        "eth_getUncleCountByBlockHash" => json!([c.block_hash]),
        "eth_getUncleByBlockNumberAndIndex" => json!([c.height, 0]),
        "eth_getUncleByBlockHashAndIndex" => json!([c.block_hash, 0]),
        "web3_sha3" => json!(["0x1234"]),
        _ => json!([]),
    }
}

/// which parameter positions bound the amount of work and are therefore only given small values
fn work_bound_positions(method: &str) -> Vec<usize> {
    match method {
        "brc20_mine" => vec![0],
        "brc20_deploy" => vec![7],
        "brc20_call" => vec![9],
        "brc20_transact" => vec![6],
        _ => vec![],
    }
}

fn mutate(method: &str, params: &Value, rng: &mut Rng) -> Value {
    let mut a = params.as_array().cloned().unwrap_or_default();
    let protected = work_bound_positions(method);
    match rng.below(10) {
        0 => {
            if !a.is_empty() {
                let k = rng.below(a.len() as u64) as usize;
                a.remove(k);
            }
        }
        1 => a.push(hostile_scalar(rng)),
        2 => return hostile_scalar(rng),
        3 => {
            // named-object form with a hostile value under a wrong name
            return json!({"nonsense": hostile_scalar(rng)});
        }
        _ => {
            let n = rng.range(1, 2);
            for _ in 0..n {
                if a.is_empty() {
                    break;
                }
                let k = rng.below(a.len() as u64) as usize;
                if protected.contains(&k) {
                    a[k] = json!(*rng.pick(&[0u64, 1, 2, 3]));
                    continue;
                }
                a[k] = if a[k].is_string() && rng.chance(2, 3) { hostile_strings(rng) } else { hostile_scalar(rng) };
            }
        }
    }
    Value::Array(a)
}

/// bytecode / calldata level hostility through the executing paths
fn evm_requests(c: &Ctx, rng: &mut Rng) -> (String, Value) {
    let rnd_len = rng.range(0, 80) as usize;
    let rnd = rng.bytes(rnd_len);
    let pre = |p: u8| format!("0x{:040x}", p);
    let txs = btc_txs();
    let mut hexes = serde_json::Map::new();
    for (id, raw) in &txs {
        hexes.insert(hex0x(id), json!(hex0x(raw)));
    }
    let abi: Vec<(u8, Vec<u8>)> = vec![
        (0xfb, getLockedPkscriptCall::new((vec![].into(), U256::from(1))).abi_encode()),
        (0xfb, getLockedPkscriptCall::new((vec![0x51].into(), U256::from(6))).abi_encode()),
        (0xfb, getLockedPkscriptCall::new((vec![0x51, 0x20].into(), U256::from(65535))).abi_encode()),
        (0xfb, getLockedPkscriptCall::new((rnd.clone().into(), U256::from(rnd_len as u64 * 900))).abi_encode()),
        (0xfb, getLockedPkscriptCall::new((rng.bytes(600).into(), U256::from(17))).abi_encode()),
        (0xfe, verifyCall::new((vec![].into(), vec![].into(), vec![].into())).abi_encode()),
        (0xfe, verifyCall::new((rng.bytes(34).into(), rng.bytes(10).into(), rng.bytes(66).into())).abi_encode()),
        (0xfa, getTxIdCall::new(()).abi_encode()),
        (0xfd, getTxDetailsCall::new((txs[1].0.into(),)).abi_encode()),
        (0xfd, getTxDetailsCall::new((txs[0].0.into(),)).abi_encode()),
        (0xfc, getLastSatLocationCall::new((txs[1].0.into(), U256::from(0), U256::from(0))).abi_encode()),
        (0xfc, getLastSatLocationCall::new((txs[1].0.into(), U256::from(1), U256::from(100))).abi_encode()),
        (0xfc, getLastSatLocationCall::new((txs[1].0.into(), U256::MAX, U256::MAX)).abi_encode()),
        // vout at and around the number of outputs (the transaction has 2), sat at and around the output values
        (0xfc, getLastSatLocationCall::new((txs[1].0.into(), U256::from(2), U256::from(0))).abi_encode()),
        (0xfc, getLastSatLocationCall::new((txs[1].0.into(), U256::from(3), U256::from(0))).abi_encode()),
        (0xfc, getLastSatLocationCall::new((txs[1].0.into(), U256::from(rng.below(4)), U256::from(*rng.pick(&[0u64, 1, 1499, 1500, 1501, 2999, 3000, 3001, 5000, 5001])))).abi_encode()),
        (0xfc, getLastSatLocationCall::new((txs[0].0.into(), U256::from(0), U256::from(0))).abi_encode()),
    ];
    let with_overrides = |to: String, data: Vec<u8>| {
        (
            "eth_callMany".to_string(),
            json!([[{"from": DEAD, "to": to, "data": hex0x(&data)}], null, {"opReturnTxIds": [hex0x(&sha("x"))], "bitcoinTxHexes": Value::Object(hexes.clone())}]),
        )
    };
    match rng.below(12) {
        0 => ("eth_call".into(), json!([{"from": DEAD, "data": hex0x(&rnd)}])),
        1 => ("eth_call".into(), json!([{"from": DEAD, "to": c.contract, "data": hex0x(&rnd)}])),
        2 => ("eth_estimateGas".into(), json!([{"from": DEAD, "data": hex0x(&rnd)}])),
        3 | 4 => {
            let (p, d) = abi[rng.below(abi.len() as u64) as usize].clone();
            with_overrides(pre(p), d)
        }
        5 => {
            // truncated / extended ABI input
            let (p, mut d) = abi[rng.below(abi.len() as u64) as usize].clone();
            if rng.chance(1, 2) {
                d.truncate(rng.below(d.len() as u64 + 1) as usize);
            } else {
                d.extend_from_slice(&rnd);
            }
            with_overrides(pre(p), d)
        }
        6 => {
            // through a contract (nested call) to a standard or custom precompile
            let p = *rng.pick(&[1u8, 2, 3, 4, 5, 6, 7, 8, 9, 0x0a, 0x0b, 0x0c, 0x0f, 0x11, 0xfa, 0xfb, 0xfe]);
            let mut a20 = [0u8; 20];
            a20[19] = p;
            with_overrides(c.contract.clone(), pg::cd_call(rng.below(3) as u8, &a20, &rnd))
        }
        7 => {
            // as a real transaction: random init code
            (
                "brc20_deploy".into(),
                json!([pkscript(2), hex0x(&rnd), null, c.ts, c.open_hash, c.open_txs, format!("c09-rnd-{}", rng.next()), 2000, ZERO_HASH]),
            )
        }
        8 => {
            let (p, d) = abi[rng.below(8) as usize].clone();
            (
                "brc20_call".into(),
                json!([pkscript(2), pre(p), null, hex0x(&d), null, c.ts, c.open_hash, c.open_txs, format!("c09-pre-{}", rng.next()), 2000, ZERO_HASH]),
            )
        }
        9 => {
            // garbage RLP as a signed transaction
            let mut raw = vec![0xf8, rng.below(256) as u8];
            raw.extend_from_slice(&rnd);
            ("brc20_transact".into(), json!([hex0x(&raw), null, c.ts, c.open_hash, c.open_txs, format!("c09-rlp-{}", rng.next()), 2000, ZERO_HASH]))
        }
        10 => ("eth_call".into(), json!([{"from": DEAD, "to": CONTROLLER, "data": hex0x(&rnd)}])),
        _ => ("eth_callMany".into(), json!([[{"from": DEAD, "to": c.contract, "data": hex0x(&pg::cd_sstore(&[(3, 4)]))}, {"from": DEAD, "to": c.contract, "data": hex0x(&pg::cd_invalid())}]])),
    }
}

fn environment(msg: &str) -> bool {
    msg.contains("Bitcoin RPC") || msg.contains("bitcoin rpc")
}

impl Prop for C09 {
    fn id(&self) -> &'static str {
        "C09"
    }
    fn runs(&self, tier: Tier) -> u64 {
        match tier {
            Tier::Quick => 2400,
            Tier::Thorough => 40000,
        }
    }
    fn hang_timeout_s(&self) -> u64 {
        45
    }
    fn lost_run_is_violation(&self) -> bool {
        true
    }
    fn generate(&self, seed: u64, _tier: Tier) -> Value {
        let rng = Rng::new(seed);
        let mut pr = rng.derive("profile");
        let p = profile(&mut pr);
        let mut g = Gen::new(rng.derive("workload"), &p);
        let mut sc = g.scenario();
        // engine states: sometimes no genesis at all, sometimes a block left open
        let mut r = rng.derive("state");
        if r.chance(1, 8) {
            sc.ops.clear();
        } else if r.chance(1, 4) {
            let mut last = g.block(false);
            if let Op::Block { txs, .. } = &mut last {
                if txs.is_empty() {
                    txs.push(g.tx());
                }
            }
            sc.ops.push(last);
        }
        let mut v = case_of(&sc);
        v["hostile_seed"] = json!(rng.derive("hostile").next());
        v["hostile_n"] = json!(r.range(10, 40));
        v
    }
    fn shrink(&self, case: &Value) -> Vec<Value> {
        // fewer hostile requests first (only_request pins one), then fewer preparation ops
        let mut out = vec![];
        if case["mode"] == "transport" {
            if case.get("only_request").is_none() {
                for k in 0..case["n"].as_u64().unwrap_or(0) {
                    let mut c = case.clone();
                    c["only_request"] = json!(k);
                    out.push(c);
                }
            }
            return out;
        }
        if case.get("only_request").is_none() {
            if let Some(n) = case["hostile_n"].as_u64() {
                for k in 0..n {
                    let mut c = case.clone();
                    c["only_request"] = json!(k);
                    out.push(c);
                }
            }
        }
        out.extend(crate::framework::shrink_ops(case));
        out
    }
    fn rule(&self) -> String {
        "case = seeded preparation history (possibly none: empty database; possibly ending mid-block; after commits / reorgs) followed by 10-40 hostile requests: every method of the live method table with mutated parameters (missing / extra / wrong type / boundary integers incl. 2^64 / empty, odd, huge, non-hex strings / every compression prefix, truncated and bomb payloads / object instead of array), random bytes as init code and call data through eth_call, eth_estimateGas and real transactions, ABI-valid, truncated and extended input to 0xfa..0xfe (0xfc/0xfd through the override path of eth_callMany), nested calls to standard precompiles, garbage RLP. Monitors: panic (caught; the shipped binary aborts), process death, no progress for 45 s (worker killed, case re-run alone for confirmation), and after every request a liveness probe (eth_blockNumber), every 8th request and at the end a write probe (clearCaches, mine, deposit + finalise must succeed and the height must grow). Parameters that bound the amount of work by design (block_count, inscription_byte_len) only take small values. distinct = sha256 of (ops, hostile seed); non-trivial = at least 10 hostile requests were answered and the final write probe ran. One run in forty is a transport run instead: the real start() on a loopback port, 6-15 seeded transport faults out of 23 kinds, authentication enabled in half of the runs (Authorization headers with non-ASCII / control bytes, torn and half-closed bodies, bodies and declared lengths above the limit, garbage request lines, invalid UTF-8, 200k-deep nesting, batches above the limit and of non-requests, other verbs, megabyte headers, a flood of 90-160 idle and half-sent connections, a client that vanishes while its eth_call burns the whole gas limit or waits for the block under construction, pipelining, byte-wise headers, bad chunking, a WebSocket upgrade followed by garbage frames, conflicting Content-Length, multi-megabyte valid requests, reset in mid-response), each followed by eth_blockNumber on a fresh connection within 20 s and a check of the process-wide panic record, and a final mine probe".into()
    }
    fn assumptions(&self) -> Vec<String> {
        vec![
            "errors and panics mentioning the Bitcoin RPC node are the environment fault the property excludes; ABI-valid 0xfc/0xfd input is only sent with transaction overrides so that no node is needed".into(),
            "transport runs use real sockets and real time (the 5 s wait for an open block included); their transcript is the list of fault kinds, which is a function of the seed; what the server answers to a malformed request is not judged, only that it keeps serving".into(),
            "brc20_mine(block_count) and inscription_byte_len bound the work of a request by design and are only mutated to small values".into(),
        ]
    }
    /// one run in forty abuses the real server at the transport level instead
    fn case_for_run(&self, i: u64, seed: u64, tier: Tier) -> Value {
        if i % 40 == 39 {
            json!({"mode": "transport", "seed": seed, "n": 6 + seed % 10})
        } else {
            self.generate(seed, tier)
        }
    }
    fn execute(&self, case: &Value) -> RunOut {
        if case["mode"] == "transport" {
            let timer = Timer::start();
            let o = super::c09t::run(case["seed"].as_u64().unwrap_or(1), case["n"].as_u64().unwrap_or(8), case.get("only_request").and_then(|v| v.as_u64()));
            return RunOut {
                digest: sha_hex(&case.to_string()),
                nontrivial: o.violation.is_none() && o.abuses >= 1,
                stats: o.stats,
                sim_ms: timer.elapsed(),
                violation: o.violation,
                transcript: sha_hex(&o.transcript),
                states: vec![],
            };
        }
        let sc = scenario_of(case);
        setup(&sc);
        let timer = Timer::start();
        let mut w = World::new(Instance::fresh_seeded("c09", sc.hash_seed), sc.config.clone());
        let mut violation: Option<Violation> = None;
        for (i, op) in sc.ops.iter().enumerate() {
            let rs = w.exec(i, op);
            if let Some(p) = any_panic(&rs) {
                violation = Some(Violation::new("panic-in-preparation", json!({"op": i, "kind": op.kind_name(), "panic": p})));
                break;
            }
        }
        let mut rng = Rng::new(case["hostile_seed"].as_u64().unwrap_or(1));
        let n = case["hostile_n"].as_u64().unwrap_or(20);
        let only = case.get("only_request").and_then(|v| v.as_u64());
        let methods = w.inst.method_names();
        let mut answered = 0u64;
        let marker = scratch_root().join("current");
        let mut transcript = String::new();
        let write_probe = |w: &mut World, k: u64| -> Option<Violation> {
            let before = match w.inst.call("eth_blockNumber", json!([])) {
                Resp::Ok(v) => crate::world::hex_u64(&v).unwrap_or(0),
                other => return Some(Violation::new("liveness/read-failed", json!({"after_request": k, "resp": other.to_value()}))),
            };
            let steps: Vec<(&str, Value)> = vec![
                ("brc20_clearCaches", json!([])),
                ("brc20_mine", json!([2, 1_800_000_000u64 + k])),
                ("brc20_deposit", json!([pkscript(3), "probe", "0x1", 1_800_000_100u64 + k, ZERO_HASH, 0, format!("c09-probe-{k}")])),
                ("brc20_finaliseBlock", json!([1_800_000_100u64 + k, ZERO_HASH, 1])),
            ];
            for (m, p) in steps {
                let r = w.inst.call(m, p);
                if !r.is_ok() {
                    return Some(Violation::new(format!("wedged/{m}-fails-after-clearCaches"), json!({"after_request": k, "resp": r.to_value()})));
                }
            }
            let after = match w.inst.call("eth_blockNumber", json!([])) {
                Resp::Ok(v) => crate::world::hex_u64(&v).unwrap_or(0),
                _ => 0,
            };
            // clearCaches may have dropped uncommitted blocks, so compare with what is there now
            let _ = before;
            if after < 2 {
                return Some(Violation::new("wedged/height-does-not-grow", json!({"after_request": k, "height": after})));
            }
            None
        };
        if violation.is_none() {
            for k in 0..n {
                // context for well-formed templates
                let height = w.height.unwrap_or(0);
                let ctx = Ctx {
                    height,
                    block_hash: w.chain.last().map(|b| b.hash.clone()).unwrap_or_else(|| ZERO_HASH.to_string()),
                    tx_hash: w.uni.tx_hashes.iter().next().cloned().unwrap_or_else(|| ZERO_HASH.to_string()),
                    contract: w.book.contracts.first().map(|c| c.addr.clone()).unwrap_or_else(|| CONTROLLER.to_string()),
                    insc: w.uni.inscription_ids.iter().next().cloned().unwrap_or_default(),
                    ts: w.open.as_ref().map_or(1_700_900_000 + k, |o| o.ts),
                    open_txs: w.open.as_ref().map_or(0, |o| o.txs),
                    open_hash: w.open.as_ref().map_or(ZERO_HASH.to_string(), |o| o.hash_param.clone()),
                };
                let (method, params) = if rng.chance(1, 3) {
                    evm_requests(&ctx, &mut rng)
                } else {
                    // the indexer interface is where the state is: four times the weight of a public method
                    let weights: Vec<u64> = methods.iter().map(|m| if m.starts_with("brc20_") { 4 } else { 1 }).collect();
                    let m = methods[rng.weighted(&weights)].clone();
                    let t = template(&m, &ctx, &mut rng);
                    let p = if rng.chance(1, 6) { t } else { mutate(&m, &t, &mut rng) };
                    (m, p)
                };
                if let Some(o) = only {
                    if o != k {
                        continue;
                    }
                }
                let req = json!({"jsonrpc": "2.0", "id": 1, "method": method, "params": params});
                let _ = std::fs::write(&marker, serde_json::to_string(&json!({"request_index": k, "request": trunc(&req)})).unwrap_or_default());
                let r = w.inst.call_raw(&req.to_string());
                w.stats.bump(&format!("hostile_{}", if method.starts_with("brc20_") { "indexer_method" } else { "public_method" }));
                transcript.push_str(&crate::obs::resp_digest(&r));
                match &r {
                    Resp::Panic(msg) if environment(msg) => {
                        // the engine may be unusable now through no fault of the request
                        w.stats.bump("environment_panic");
                        break;
                    }
                    Resp::Panic(msg) => {
                        violation = Some(Violation::new(
                            format!("panic/{}", method),
                            json!({"request_index": k, "request": trunc(&req), "panic": msg, "prepared_height": w.height, "block_open": w.open.is_some()}),
                        ));
                        break;
                    }
                    Resp::Ok(_) => {
                        answered += 1;
                        w.stats.bump("hostile_answered_ok");
                    }
                    Resp::Err { .. } => {
                        answered += 1;
                        w.stats.bump("hostile_answered_error");
                    }
                }
                // liveness: the server still answers
                match w.inst.call("eth_blockNumber", json!([])) {
                    Resp::Ok(_) => {}
                    other => {
                        violation = Some(Violation::new(format!("not-serving-after/{method}"), json!({"request_index": k, "request": trunc(&req), "eth_blockNumber": other.to_value()})));
                        break;
                    }
                }
                if k % 8 == 7 {
                    if let Some(mut v) = write_probe(&mut w, k) {
                        v.detail["last_request"] = trunc(&req);
                        violation = Some(v);
                        break;
                    }
                    // the probe discarded the preparation state's open block
                    w.open = None;
                    w.stats.bump("write_probes");
                }
            }
        }
        let _ = std::fs::remove_file(&marker);
        let env = w.stats.counts.contains_key("environment_panic");
        let mut probed = false;
        if violation.is_none() && !env {
            if let Some(v) = write_probe(&mut w, n) {
                violation = Some(v);
            }
            probed = true;
            w.stats.bump("write_probes");
        }
        let _ = signer(0);
        let mut out = finish(&sc, &[&w], answered >= 10 && probed, &timer, violation);
        out.digest = sha_hex(&format!("{}{}", out.digest, case["hostile_seed"]));
        out.transcript = sha_hex(&format!("{}{}", out.transcript, transcript));
        out
    }
}
