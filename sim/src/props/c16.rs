//! C16 - gas allowance follows inscription size; gas estimates are sufficient.
use super::common::*;
use crate::framework::{Prop, RunOut, Tier, Violation};
use crate::gen::{CommitSched, Gen, Profile};
use crate::inst::{Instance, Resp};
use crate::obs::{self, Depth};
use crate::ops::*;
use crate::rng::Rng;
use crate::world::{addr_str, hex_u64, pk_addr, World, N_PK};
use serde_json::{json, Value};

pub struct C16;

const GAS_PER_BYTE: u64 = 12000;

fn profile() -> Profile {
    let mut p = Profile::default();
    p.blocks = (2, 10);
    p.txs = (1, 3);
    p.commit = CommitSched::Random(1, 3);
    p.p_reorg = (1, 8);
    p.p_mine = (1, 12);
    p.w_spin = 0;
    p.w_probe = 0;
    p.w_tx = [5, 8, 1, 2, 1];
    p.traces = vec![true];
    p
}

/// programs that neither read remaining gas / time / randomness nor swallow failures of sub-calls
fn gas_program(rng: &mut Rng, depth: u32, stores: &[String]) -> Cd {
    match rng.below(if depth == 0 { 15 } else { 8 }) {
        // what the program returns depends on the block it runs in: the estimate and the prediction are made for the
        // block the transaction will be part of
        14 => Cd::BlockInfo,
        // refund-dominated: clears 2-6 slots (set to non-zero by a preceding block), gas used after refunds is far
        // below what must be available up front
        12 | 13 => Cd::Sstore((0..rng.range(2, 6)).map(|i| (20 + i, 0)).collect()),
        0 | 1 => Cd::Sstore((0..rng.range(1, 6)).map(|_| (rng.below(8), rng.below(5))).collect()),
        2 => Cd::Log { topics: (0..rng.below(5)).map(|_| rng.below(4)).collect(), data_len: rng.below(60) as u8 },
        3 => Cd::Echo(rng.below(60) as u8),
        4 => Cd::Sload(rng.below(8)),
        5 | 6 => Cd::Burn(rng.range(1, 6000) as u16),
        7 => Cd::CreateChild { salt: Some(rng.next() % 1_000_000), kind: if rng.chance(1, 2) { ChildKind::Store } else { ChildKind::Empty } },
        8 | 9 => Cd::CallOther { kind: 0, target: Target::Addr(rng.pick(stores).clone()), inner: Box::new(gas_program(rng, depth + 1, stores)) },
        10 => Cd::CallOther { kind: 1, target: Target::Precompile(*rng.pick(&[2u8, 4, 0xfb])), inner: Box::new(Cd::Echo(40)) },
        _ => Cd::Revert(rng.below(8) as u8),
    }
}

fn state_part(o: &obs::Obs, except_nonce_of: &str) -> obs::Obs {
    o.iter()
        .filter(|(k, _)| {
            let kind = obs::kind_of(k);
            (kind == "nonce" && !k.ends_with(except_nonce_of)) || kind == "code" || kind == "storage" || kind == "inscByContract"
        })
        .map(|(k, v)| (k.clone(), v.clone()))
        .collect()
}

impl Prop for C16 {
    fn id(&self) -> &'static str {
        "C16"
    }
    fn runs(&self, tier: Tier) -> u64 {
        match tier {
            Tier::Quick => 800,
            Tier::Thorough => 8000,
        }
    }
    fn generate(&self, seed: u64, _tier: Tier) -> Value {
        let rng = Rng::new(seed);
        let p = profile();
        let mut g = Gen::new(rng.derive("workload"), &p);
        let mut sc = g.scenario();
        sc.config.traces = true;
        let mut v = case_of(&sc);
        v["probe_seed"] = json!(rng.derive("probes").next());
        v["probes"] = json!(rng.derive("n").range(4, 10));
        v
    }
    fn hang_timeout_s(&self) -> u64 {
        // the runs at altitude mine up to 980000 blocks before they report
        1200
    }
    /// the first two runs of every batch work at the heights where the live chains are (above every activation height
    /// the code knows about), not at the bottom of the chain: signet at 330000, mainnet at 980000
    fn case_for_run(&self, i: u64, seed: u64, tier: Tier) -> Value {
        let mut v = self.generate(seed, tier);
        if i < 2 {
            v["config"]["network"] = json!(if i == 0 { "signet" } else { "mainnet" });
            v["ops"] = json!([{"Init": {"hash": "Zero"}}]);
            v["altitude"] = json!(if i == 0 { 330_000u64 } else { 980_000u64 });
        }
        v
    }
    fn rule(&self) -> String {
        "case = seeded history (commits, reorgs) that leaves some Store contracts deployed, then 4-10 probes at the block boundary. Each probe draws a program (storage loops, refund-dominated slot clearing, logs, cheap loops, nested CALL, STATICCALL to precompiles, CREATE2, revert) and (a) submits it, as hex or as raw / zstd base64, with an inscription length from {0,1,2,need-1,need,need+1,2*need,2000,10^6,2^64-1}: receipt gasUsed <= min(len*12000, 2^64-1), and a failed transaction leaves accounts/code/storage unchanged except its sender's nonce; (b) closes the estimate loop (in a third of the runs also across a reorg: estimate, orphan the block that made the call cheap, regrow the height differently, estimate again, submit): eth_estimateGas -> brc20_call with inscription_byte_len = ceil(estimate/12000) must succeed with the output eth_call returned. The first two runs of every batch do this at height 330000 of a signet chain and 980000 of a mainnet chain (above the activation heights of the live networks; empty blocks mined in committed chunks). distinct = sha256 of (ops, probe seed); non-trivial = at least one estimate loop closed and one transaction failed for lack of allowance".into()
    }
    fn assumptions(&self) -> Vec<String> {
        vec!["programs that swallow sub-call failures (Multi) or read GAS/TIMESTAMP/PREVRANDAO/0xfa are excluded, as the statement allows".into()]
    }
    fn execute(&self, case: &Value) -> RunOut {
        let sc = scenario_of(case);
        setup(&sc);
        let timer = Timer::start();
        let mut w = World::new(Instance::fresh_seeded("c16", sc.hash_seed), sc.config.clone());
        let mut violation: Option<Violation> = None;
        for (i, op) in sc.ops.iter().enumerate() {
            let rs = w.exec(i, op);
            if let Some(p) = any_panic(&rs) {
                violation = Some(Violation::new("panic-in-history", json!({"op": i, "panic": p})));
                break;
            }
        }
        if w.open.is_some() {
            w.exec(sc.ops.len(), &Op::ClearCaches);
        }
        if let (Some(alt), None) = (case.get("altitude").and_then(|a| a.as_u64()), &violation) {
            // empty blocks in committed chunks, straight through the engine (no per-block bookkeeping)
            let mut h = w.height.unwrap_or(0);
            while h < alt {
                let n = (alt - h).min(10_000);
                let r = w.inst.call("brc20_mine", json!({"block_count": n, "timestamp": crate::world::BASE_TS + 100}));
                let c = w.inst.call("brc20_commitToDatabase", json!([]));
                if !r.is_ok() || !c.is_ok() {
                    violation = Some(Violation::new("panic-in-history", json!({"mine": r.to_value(), "commit": c.to_value(), "height": h})));
                    break;
                }
                h += n;
            }
            w.height = Some(h);
            w.committed = Some(h);
            w.max_finalised = Some(h);
            w.uni.from_height = h.saturating_sub(2);
            w.uni.max_height = h;
            w.stats.add("blocks_mined_to_altitude", h);
        }
        let mut rng = Rng::new(case["probe_seed"].as_u64().unwrap_or(1));
        let n = case["probes"].as_u64().unwrap_or(6);
        let (mut closed, mut starved) = (false, false);
        let mut id = 7_000_000u32;
        let base = sc.ops.len();
        if violation.is_none() && w.height.is_some() {
            // make sure there is something to call
            if w.book.contracts.iter().filter(|c| c.kind == "store").count() < 2 {
                for s in 0..2u8 {
                    id += 1;
                    w.exec(base, &Op::Block { ts: 900_000 + id as u64, hash: HashMode::Zero, txs: vec![Tx { id, kind: TxKind::Deploy { sender: s, prog: DeployProg::Store }, len: LenPolicy::Generous, enc: Enc::Hex }], finalise: true });
                }
            }
            if w.book.contracts.iter().filter(|c| c.kind == "store").count() == 0 {
                violation = Some(Violation::new("probe-tx-rejected", json!({"why": "a contract deployment with a generous inscription length did not create a contract", "height": w.height})));
            }
            'probes: for k in 0..n {
                if violation.is_some() {
                    break 'probes;
                }
                let sender = rng.below(N_PK as u64) as u8;
                // only Store contracts: the Probe contract reads time and randomness, which the statement excludes
                let stores: Vec<String> = w.book.contracts.iter().filter(|c| c.kind == "store").map(|c| c.addr.clone()).collect();
                if stores.is_empty() {
                    break 'probes;
                }
                let target = Target::Addr(rng.pick(&stores).clone());
                let data = gas_program(&mut rng, 0, &stores);
                // a quarter of the probes are sent as a signed transaction of a signer account (next nonce) instead of an
                // inscription call; the gas limit field of the signed payload varies and must not matter
                let signed_by: Option<u8> = if rng.chance(1, 4) { Some(rng.below(crate::world::N_SIGNERS as u64) as u8) } else { None };
                let from = match signed_by {
                    Some(sg) => Who::Signer(sg),
                    None => Who::Pk(sender),
                };
                if let Cd::Sstore(pairs) = &data {
                    if pairs.iter().all(|(slot, v)| *v == 0 && *slot >= 20) {
                        id += 1;
                        let fill = Cd::Sstore(pairs.iter().map(|(slot, _)| (*slot, 7)).collect());
                        let setup_tx = Tx { id, kind: TxKind::Call { sender, target: target.clone(), by_inscription: false, data: fill }, len: LenPolicy::Generous, enc: Enc::Hex };
                        w.exec(base, &Op::Block { ts: 950_000 + id as u64, hash: HashMode::Zero, txs: vec![setup_tx], finalise: true });
                        w.stats.bump("probe_refund_dominated_program");
                    }
                }
                // ---- (b) estimate loop
                let call = w.eth_call_obj(&from, &Some(target.clone()), &data, &None);
                let est = w.inst.call("eth_estimateGas", json!([call]));
                let need = match &est {
                    Resp::Ok(v) => hex_u64(v).map(|e| e.div_ceil(GAS_PER_BYTE)),
                    Resp::Panic(p) => {
                        violation = Some(Violation::new("panic-in-estimate", json!({"probe": k, "panic": p})));
                        break 'probes;
                    }
                    _ => None,
                };
                let predicted = w.inst.call("eth_call", json!([call]));
                let choose_len = |rng: &mut Rng, need: Option<u64>| -> u64 {
                    let nd = need.unwrap_or(3);
                    match rng.below(12) {
                        0 => 0,
                        1 => 1,
                        2 => 2,
                        3 => nd.saturating_sub(1),
                        4 | 5 => nd,
                        6 => nd + 1,
                        7 => nd * 2,
                        8 => 2000,
                        9 => 1_000_000,
                        10 => u64::MAX,
                        _ => u64::MAX / GAS_PER_BYTE + 1,
                    }
                };
                let close_loop = need.is_some() && rng.chance(1, 2);
                let len = if close_loop { need.unwrap() } else { choose_len(&mut rng, need) };
                id += 1;
                // the payload travels as hex or as (compressed) base64: the allowance is a function of the reported length only
                let enc = match rng.below(5) {
                    0..=2 => Enc::Hex,
                    3 => Enc::B64Raw { pad: 0 },
                    _ => Enc::B64Zstd { pad: 0 },
                };
                if enc != Enc::Hex {
                    w.stats.bump("probe_base64_payload");
                }
                let kind = match signed_by {
                    Some(sg) => {
                        w.stats.bump("probe_signed_transaction_probe");
                        TxKind::Transact { signer: sg, nonce: NonceSpec::Rel(0), to: Some(target.clone()), data: data.clone(), deploy: None, chain_ok: true }
                    }
                    None => TxKind::Call { sender, target: target.clone(), by_inscription: false, data: data.clone() },
                };
                let tx = Tx { id, kind, len: LenPolicy::Exact(len), enc };
                let ts = 1_000_000 + id as u64;
                w.op_index = base + 1 + k as usize;
                // sometimes another transaction of the same block burns its whole (possibly saturated) allowance
                // first: the allowance of a transaction must not depend on its neighbours
                if rng.chance(1, 3) {
                    let plen = *rng.pick(&[u64::MAX, u64::MAX / GAS_PER_BYTE + 1, 2000, 3]);
                    let pre = Tx {
                        id: id + 500_000,
                        kind: TxKind::Call { sender: (sender + 1) % N_PK, target: target.clone(), by_inscription: false, data: Cd::Invalid },
                        len: LenPolicy::Exact(plen),
                        enc: Enc::Hex,
                    };
                    let pr = w.exec_tx(crate::world::BASE_TS + ts, &HashMode::Zero, &pre);
                    if let Resp::Ok(v) = &pr {
                        let pu = hex_u64(&v["gasUsed"]).unwrap_or(u64::MAX);
                        if pu > plen.saturating_mul(GAS_PER_BYTE) {
                            violation = Some(Violation::new("gas-used-exceeds-allowance", json!({"probe": k, "prelude": true, "inscription_byte_len": plen, "gasUsed": pu})));
                            break 'probes;
                        }
                        w.stats.bump("probe_block_with_allowance_burning_neighbour");
                    }
                }
                let uni0 = w.uni.clone();
                let before = obs::observe(&mut w.inst, &uni0, Depth::Getters);
                let r = w.exec_tx(crate::world::BASE_TS + ts, &HashMode::Zero, &tx);
                let receipt = match &r {
                    // a signed transaction answers with the list of receipts it produced (its own first)
                    Resp::Ok(Value::Array(a)) => match a.first() {
                        // alone: a waiting successor of the same signer that is drained in the same call would blur what
                        // this transaction did
                        Some(x) if a.len() == 1 => x.clone(),
                        _ => {
                            let _ = w.finalise(crate::world::BASE_TS + ts, &HashMode::Zero);
                            w.stats.bump("signed_probe_not_executed");
                            continue;
                        }
                    },
                    Resp::Ok(v) => v.clone(),
                    other => {
                        violation = Some(Violation::new("probe-tx-rejected", json!({"probe": k, "len": len, "resp": other.to_value()})));
                        break 'probes;
                    }
                };
                let fin = w.finalise(crate::world::BASE_TS + ts, &HashMode::Zero);
                if !fin.is_ok() {
                    violation = Some(Violation::new("probe-finalise-rejected", json!({"probe": k, "resp": fin.to_value()})));
                    break 'probes;
                }
                let allowance = len.saturating_mul(GAS_PER_BYTE);
                let used = hex_u64(&receipt["gasUsed"]).unwrap_or(u64::MAX);
                let ok = hex_u64(&receipt["status"]) == Some(1);
                w.stats.bump(if ok { "probe_tx_succeeded" } else { "probe_tx_failed" });
                if used > allowance {
                    violation = Some(Violation::new("gas-used-exceeds-allowance", json!({"probe": k, "inscription_byte_len": len, "allowance": allowance, "gasUsed": used, "program": trunc(&serde_json::to_value(&data).unwrap())})));
                    break 'probes;
                }
                if !ok {
                    // failed: nothing but the sender's nonce may have moved
                    let after = obs::observe(&mut w.inst, &uni0, Depth::Getters);
                    let me = addr_str(&w.who_addr(&from));
                    if let Some((kind, d)) = first_diff(&state_part(&before, &me), &state_part(&after, &me)) {
                        violation = Some(Violation::new(format!("failed-tx-changed-state/{kind}"), json!({"probe": k, "inscription_byte_len": len, "receipt": trunc(&receipt), "diff(before,after)": d})));
                        break 'probes;
                    }
                    if need.map_or(false, |nd| len < nd) {
                        starved = true;
                        w.stats.bump("probe_failed_for_lack_of_allowance");
                    }
                }
                if !close_loop && !ok && need.map_or(false, |nd| len >= nd) && matches!(predicted, Resp::Ok(_)) {
                    // more allowance than the sufficient estimate can not make a gas-oblivious program fail
                    violation = Some(Violation::new(
                        "allowance-above-estimate-failed",
                        json!({"probe": k, "estimate": est.to_value(), "inscription_byte_len": len, "allowance(saturating)": allowance, "receipt": trunc(&receipt), "program": trunc(&serde_json::to_value(&data).unwrap())}),
                    ));
                    break 'probes;
                }
                if close_loop {
                    if !ok {
                        violation = Some(Violation::new(
                            "estimate-not-sufficient",
                            json!({"probe": k, "estimate": est.to_value(), "inscription_byte_len": len, "receipt": trunc(&receipt), "program": trunc(&serde_json::to_value(&data).unwrap())}),
                        ));
                        break 'probes;
                    }
                    let th = receipt["transactionHash"].as_str().unwrap_or("").to_string();
                    let trace = w.inst.call("debug_traceTransaction", json!([th]));
                    let got = trace.ok().and_then(|t| t["output"].as_str().map(|s| s.to_string()));
                    let want = predicted.ok().and_then(|v| v.as_str().map(|s| s.to_string()));
                    if want.is_some() && got.is_some() && got != want {
                        violation = Some(Violation::new("output-differs-from-eth_call", json!({"probe": k, "eth_call": want, "transaction_output": got, "program": trunc(&serde_json::to_value(&data).unwrap())})));
                        break 'probes;
                    }
                    closed = true;
                    w.stats.bump("probe_estimate_loop_closed");
                }
            }
        }
        // an estimate is made for the state the call will meet: ask, orphan the block that made the call cheap, grow a
        // different block of the same height, ask again - the second answer must be sufficient on the new branch
        if violation.is_none() && w.height.map_or(false, |h| h >= 1) && w.open.is_none() && rng.chance(1, 3) {
            let stores: Vec<String> = w.book.contracts.iter().filter(|c| c.kind == "store").map(|c| c.addr.clone()).collect();
            if let Some(addr) = stores.first().cloned() {
                let target = Target::Addr(addr);
                let sender = rng.below(N_PK as u64) as u8;
                let slot = 40 + rng.below(4);
                id += 1;
                let ts0 = crate::world::BASE_TS + 4_000_000 + id as u64;
                w.op_index = base + 200;
                // block H-1 on the first branch: the slot becomes non-zero (writing it again is cheap)
                let fill = Tx { id, kind: TxKind::Call { sender, target: target.clone(), by_inscription: false, data: Cd::Sstore(vec![(slot, 7)]) }, len: LenPolicy::Generous, enc: Enc::Hex };
                w.exec(base + 200, &Op::Block { ts: 4_000_000 + id as u64, hash: HashMode::Zero, txs: vec![fill], finalise: true });
                let data = Cd::Sstore(vec![(slot, 9)]);
                let call = w.eth_call_obj(&Who::Pk(sender), &Some(target.clone()), &data, &None);
                let first = w.inst.call("eth_estimateGas", json!([call]));
                let back = w.height.unwrap_or(1).saturating_sub(1);
                if w.reorg_to(back).is_ok() {
                    // the same height again, without the write
                    w.exec(base + 201, &Op::Mine { n: 1 });
                    let second = w.inst.call("eth_estimateGas", json!([call]));
                    if let (Resp::Ok(e1), Resp::Ok(e2)) = (&first, &second) {
                        let need = hex_u64(e2).map(|e| e.div_ceil(GAS_PER_BYTE)).unwrap_or(4);
                        id += 1;
                        let tx = Tx { id, kind: TxKind::Call { sender, target: target.clone(), by_inscription: false, data: data.clone() }, len: LenPolicy::Exact(need), enc: Enc::Hex };
                        let r = w.exec_tx(ts0 + 5, &HashMode::Zero, &tx);
                        let _ = w.finalise(ts0 + 5, &HashMode::Zero);
                        w.stats.bump("probe_estimate_again_after_reorg");
                        if let Resp::Ok(rc) = &r {
                            if hex_u64(&rc["status"]) != Some(1) {
                                violation = Some(Violation::new(
                                    "estimate-not-sufficient/after-reorg",
                                    json!({"estimate_on_the_orphaned_branch": e1, "estimate_on_the_new_branch": e2, "inscription_byte_len": need, "receipt": trunc(rc)}),
                                ));
                            }
                        }
                    }
                }
            }
        }
        // parked signed transactions keep their own allowance when they are drained by a later call
        if violation.is_none() && w.height.is_some() && w.open.is_none() {
            let stores: Vec<String> = w.book.contracts.iter().filter(|c| c.kind == "store").map(|c| c.addr.clone()).collect();
            for round in 0..2u32 {
                if stores.is_empty() {
                    break;
                }
                let sg = rng.below(crate::world::N_SIGNERS as u64) as u8;
                let target = Target::Addr(rng.pick(&stores).clone());
                let iters = rng.range(200, 5000) as u16;
                let data = Cd::Burn(iters);
                // what the parked call needs
                let call = w.eth_call_obj(&Who::Signer(sg), &Some(target.clone()), &data, &None);
                let need = match w.inst.call("eth_estimateGas", json!([call])) {
                    Resp::Ok(v) => hex_u64(&v).map(|e| e.div_ceil(GAS_PER_BYTE)),
                    _ => None,
                };
                let Some(need) = need else { continue };
                let own_len = match rng.below(4) {
                    0 => need.saturating_sub(2).max(1),
                    1 => need.saturating_sub(1).max(1),
                    2 => need,
                    _ => need + 1,
                };
                id += 2;
                let parked = Tx { id, kind: TxKind::Transact { signer: sg, nonce: NonceSpec::Rel(1), to: Some(target.clone()), data: data.clone(), deploy: None, chain_ok: true }, len: LenPolicy::Exact(own_len), enc: Enc::Hex };
                let filler = Tx { id: id + 1, kind: TxKind::Transact { signer: sg, nonce: NonceSpec::Rel(0), to: Some(target.clone()), data: Cd::Sload(1), deploy: None, chain_ok: true }, len: LenPolicy::Generous, enc: Enc::Hex };
                let ts = crate::world::BASE_TS + 3_000_000 + id as u64;
                w.op_index = base + 100 + round as usize;
                let r1 = w.exec_tx(ts, &HashMode::Zero, &parked);
                if !matches!(&r1, Resp::Ok(v) if v.as_array().map(|a| a.is_empty()).unwrap_or(false)) {
                    let _ = w.finalise(ts, &HashMode::Zero);
                    continue;
                }
                let r2 = w.exec_tx(ts, &HashMode::Zero, &filler);
                let _ = w.finalise(ts, &HashMode::Zero);
                let Resp::Ok(Value::Array(rcs)) = &r2 else { continue };
                if rcs.len() != 2 {
                    continue;
                }
                let drained = &rcs[1];
                let used = hex_u64(&drained["gasUsed"]).unwrap_or(u64::MAX);
                let ok = hex_u64(&drained["status"]) == Some(1);
                w.stats.bump("probe_drained_tx_allowance_checked");
                if used > own_len.saturating_mul(GAS_PER_BYTE) {
                    violation = Some(Violation::new("drained-tx-exceeds-its-own-allowance", json!({"own_inscription_byte_len": own_len, "allowance": own_len * GAS_PER_BYTE, "gasUsed": used, "filler_inscription_byte_len": 2000, "receipt": trunc(drained)})));
                    break;
                }
                if own_len >= need && !ok {
                    violation = Some(Violation::new("drained-tx-with-sufficient-allowance-failed", json!({"own_inscription_byte_len": own_len, "needed_bytes": need, "receipt": trunc(drained)})));
                    break;
                }
                if own_len + 1 < need && ok {
                    violation = Some(Violation::new("drained-tx-succeeded-beyond-its-allowance", json!({"own_inscription_byte_len": own_len, "needed_bytes": need, "receipt": trunc(drained)})));
                    break;
                }
            }
        }
        let mut out = finish(&sc, &[&w], closed && starved, &timer, violation);
        out.digest = crate::framework::sha_hex(&format!("{}{}", out.digest, case["probe_seed"]));
        out
    }
}
