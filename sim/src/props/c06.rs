//! C06 - blocks, transactions, receipts, logs and inscription indexes are coherent at every block boundary.
use super::common::*;
use crate::framework::{Prop, RunOut, Tier, Violation};
use crate::gen::{CommitSched, Gen, Profile};
use crate::inst::{Instance, Resp};
use crate::ops::*;
use crate::rng::Rng;
use crate::world::{hex_u64, World};
use alloy::consensus::{Block, ReceiptWithBloom, TxEnvelope};
use alloy::consensus::Transaction as _;
use alloy::primitives::keccak256;
use alloy_rlp::Decodable;
use serde_json::{json, Value};
use sha2::{Digest, Sha256};

pub struct C06;

fn profile(rng: &mut Rng) -> Profile {
    let mut p = Profile::default();
    p.blocks = (4, 18);
    p.txs = (0, 6);
    p.commit = match rng.below(5) {
        0 => CommitSched::Never,
        1 => CommitSched::Every(1),
        2 => CommitSched::Random(1, 3),
        // batched commits: rows stay in memory for ten blocks and more before they are written
        3 => CommitSched::Random(1, 12),
        _ => CommitSched::Every(rng.range(9, 13)),
    };
    p.p_reorg = (1, 6);
    p.p_commit_before_reorg = (1, 2);
    p.reorg_back = vec![(1, 4), (2, 3), (3, 2), (5, 1), (9, 3), (10, 8), (11, 2), (0, 1), (-1, 1)];
    p.p_mine = (1, 12);
    p.p_clear = (1, 30);
    p.w_spin = 1;
    p.len_variety = rng.chance(1, 2);
    p.signed_chaos = rng.chance(2, 3);
    p.w_tx = [3, 8, 5, 2, 1];
    p
}

fn unhex(s: &str) -> Vec<u8> {
    hex::decode(s.trim_start_matches("0x")).unwrap_or_default()
}

/// own 2048-bit log bloom (yellow paper M3:2048)
pub fn bloom_of_logs(logs: &[Value]) -> [u8; 256] {
    let mut b = [0u8; 256];
    let mut add = |data: &[u8]| {
        let h = keccak256(data);
        for i in [0usize, 2, 4] {
            let bit = (((h[i] as usize) << 8) | h[i + 1] as usize) & 2047;
            b[255 - bit / 8] |= 1 << (bit % 8);
        }
    };
    for l in logs {
        add(&unhex(l["address"].as_str().unwrap_or("")));
        for t in l["topics"].as_array().cloned().unwrap_or_default() {
            add(&unhex(t.as_str().unwrap_or("")));
        }
    }
    b
}

/// own SHA-256 merkle root: pairs hashed, an odd node is promoted unchanged, empty = zero
pub fn merkle_root(leaves: &[Vec<u8>]) -> Vec<u8> {
    if leaves.is_empty() {
        return vec![0u8; 32];
    }
    let mut layer: Vec<Vec<u8>> = leaves.to_vec();
    while layer.len() > 1 {
        let mut next = vec![];
        for pair in layer.chunks(2) {
            if pair.len() == 2 {
                let mut h = Sha256::new();
                h.update(&pair[0]);
                h.update(&pair[1]);
                next.push(h.finalize().to_vec());
            } else {
                next.push(pair[0].clone());
            }
        }
        layer = next;
    }
    layer.remove(0)
}

fn ok(w: &mut World, method: &str, params: Value) -> Result<Value, String> {
    match w.inst.call(method, params.clone()) {
        Resp::Ok(v) => Ok(v),
        other => Err(format!("{method}({params}) -> {}", other.to_value())),
    }
}

macro_rules! ensure {
    ($cond:expr, $class:expr, $($detail:tt)*) => {
        if !($cond) {
            return Some(Violation::new($class, json!($($detail)*)));
        }
    };
}

/// transaction hashes that occur more than once among the receipts returned to the indexer, with the
/// reason when it is one of the two understood ones:
/// * validation-failure: one occurrence failed validation (gasUsed 0, status 0), the sender's nonce did
///   not move, so an identical later inscription transaction derives the same hash;
/// * legacy-signing-hash: on mainnet below the RLP-hash activation height the hash of a signed
///   transaction is its signing hash, which two signers of identical content share.
pub fn reused_hashes(w: &World) -> std::collections::BTreeMap<String, (Vec<(u64, u64)>, &'static str)> {
    let mut seen: std::collections::BTreeMap<String, Vec<(u64, u64, bool, String)>> = Default::default();
    for b in &w.chain {
        for (i, x) in b.receipts.iter().enumerate() {
            let r = &x["receipt"];
            let failed_validation = hex_u64(&r["gasUsed"]) == Some(0) && hex_u64(&r["status"]) == Some(0);
            seen.entry(r["transactionHash"].as_str().unwrap_or("").to_string()).or_default().push((
                b.height,
                i as u64,
                failed_validation,
                r["from"].as_str().unwrap_or("").to_string(),
            ));
        }
    }
    let mainnet = w.cfg.network == "mainnet" || w.cfg.network == "bitcoin";
    seen.into_iter()
        .filter(|(_, v)| v.len() > 1)
        .map(|(k, v)| {
            let froms: std::collections::BTreeSet<&String> = v.iter().map(|x| &x.3).collect();
            let reason = if v.iter().any(|x| x.2) {
                "validation-failure"
            } else if mainnet && froms.len() > 1 {
                "legacy-signing-hash"
            } else {
                "other"
            };
            (k, (v.iter().map(|x| (x.0, x.1)).collect(), reason))
        })
        .collect()
}

/// block tags resolve to the heights they name: latest / safe / finalized = the tip, earliest = block 0,
/// pending = the height being built (answered like any height that does not exist yet)
pub fn check_tags(w: &mut World) -> Option<Violation> {
    let tip = w.height?;
    let by = |w: &mut World, p: Value| w.inst.call("eth_getBlockByNumber", json!([p, false])).to_value();
    let dec_tip = tip.to_string();
    let dec_mid = (tip / 2 + 5).min(tip).to_string();
    for (tag, h) in [("latest", tip), ("safe", tip), ("finalized", tip), ("earliest", 0), ("pending", tip + 1), (dec_tip.as_str(), tip), (dec_mid.as_str(), (tip / 2 + 5).min(tip))] {
        let a = by(w, json!(tag));
        let b = by(w, json!(format!("0x{:x}", h)));
        if a != b {
            let label = if tag.chars().all(|c| c.is_ascii_digit()) { "decimal-height" } else { tag };
            return Some(Violation::new(format!("block-tag-resolves-wrongly/{label}"), json!({"tag": tag, "expected_height": h, "by_tag": trunc(&a), "by_number": trunc(&b)})));
        }
    }
    for (m, p_tag, p_num) in [
        ("eth_getBlockTransactionCountByNumber", json!(["latest"]), json!([format!("0x{:x}", tip)])),
        ("debug_getRawHeader", json!(["latest"]), json!([format!("0x{:x}", tip)])),
        ("debug_getRawBlock", json!(["latest"]), json!([format!("0x{:x}", tip)])),
        ("eth_getLogs", json!([{"fromBlock": "latest", "toBlock": "latest"}]), json!([{"fromBlock": format!("0x{:x}", tip), "toBlock": format!("0x{:x}", tip)}])),
        ("eth_getLogs", json!([{"fromBlock": "earliest", "toBlock": "0x2"}]), json!([{"fromBlock": "0x0", "toBlock": "0x2"}])),
    ] {
        let a = w.inst.call(m, p_tag).to_value();
        let b = w.inst.call(m, p_num).to_value();
        if a != b {
            return Some(Violation::new(format!("block-tag-resolves-wrongly/{m}"), json!({"by_tag": trunc(&a), "by_number": trunc(&b), "tip": tip})));
        }
    }
    w.stats.bump("probe_block_tags_checked");
    None
}

/// all coherence checks for the block at height `h`
pub fn check_block(w: &mut World, h: u64) -> Option<Violation> {
    let reused = reused_hashes(w);
    let hx = format!("0x{:x}", h);
    let rec = w.chain.iter().find(|b| b.height == h).cloned();
    let Some(rec) = rec else {
        return Some(Violation::new("harness/no-record", json!({"height": h})));
    };
    let blk = match ok(w, "eth_getBlockByNumber", json!([hx, false])) {
        Ok(b) => b,
        Err(e) => return Some(Violation::new("block-missing", json!({"height": h, "resp": e}))),
    };
    ensure!(hex_u64(&blk["number"]) == Some(h), "block-number-mismatch", {"height": h, "block": trunc(&blk)});
    let bhash = blk["hash"].as_str().unwrap_or("").to_string();
    // parent link
    if h > 0 {
        if w.chain.iter().any(|b| b.height == h - 1) {
            let parent = match ok(w, "eth_getBlockByNumber", json!([format!("0x{:x}", h - 1), false])) {
                Ok(b) => b,
                Err(e) => return Some(Violation::new("heights-not-contiguous", json!({"height": h, "resp": e}))),
            };
            ensure!(blk["parentHash"] == parent["hash"], "parent-hash-mismatch", {"height": h, "parentHash": blk["parentHash"], "previous.hash": parent["hash"]});
        }
    }
    // hash <-> number
    match ok(w, "eth_getBlockByHash", json!([bhash, false])) {
        Ok(b2) => ensure!(b2["number"] == blk["number"] && b2["hash"] == blk["hash"], "hash-number-not-inverse", {"height": h, "byNumber": trunc(&blk), "byHash": trunc(&b2)}),
        Err(e) => return Some(Violation::new("hash-number-not-inverse", json!({"height": h, "resp": e}))),
    }
    // transactions = accepted transactions in index order
    let receipts: Vec<Value> = rec.receipts.iter().map(|x| x["receipt"].clone()).collect();
    let want_hashes: Vec<Value> = receipts.iter().map(|r| r["transactionHash"].clone()).collect();
    ensure!(blk["transactions"] == json!(want_hashes), "block-tx-list-differs-from-accepted", {"height": h, "block.transactions": blk["transactions"], "accepted": want_hashes});
    let n = receipts.len() as u64;
    for (m, p) in [("eth_getBlockTransactionCountByNumber", json!([hx])), ("eth_getBlockTransactionCountByHash", json!([bhash]))] {
        match ok(w, m, p) {
            Ok(c) => ensure!(hex_u64(&c) == Some(n), format!("tx-count-mismatch/{m}"), {"height": h, "count": c, "accepted": n}),
            Err(e) => return Some(Violation::new(format!("tx-count-mismatch/{m}"), json!({"height": h, "resp": e}))),
        }
    }
    let full = ok(w, "eth_getBlockByNumber", json!([hx, true])).unwrap_or(Value::Null);
    let mut log_index = 0u64;
    let mut cumulative = 0u64;
    let mut all_logs: Vec<Value> = vec![];
    let mut txs: Vec<Value> = vec![];
    for (i, r) in receipts.iter().enumerate() {
        let th = r["transactionHash"].as_str().unwrap_or("").to_string();
        let i = i as u64;
        ensure!(hex_u64(&r["transactionIndex"]) == Some(i) && hex_u64(&r["blockNumber"]) == Some(h) && r["blockHash"].as_str() == Some(bhash.as_str()),
            "returned-receipt-position-mismatch", {"height": h, "index": i, "block_hash": bhash, "receipt": trunc(r)});
        if reused.contains_key(&th) {
            // by-hash lookups are ambiguous for this transaction (reported separately at the end of the run);
            // position-independent checks continue
            let logs = r["logs"].as_array().cloned().unwrap_or_default();
            log_index += logs.len() as u64;
            all_logs.extend(logs);
            cumulative = cumulative.saturating_add(hex_u64(&r["gasUsed"]).unwrap_or(0));
            txs.push(Value::Null);
            continue;
        }
        // receipt served later == receipt returned to the indexer
        match ok(w, "eth_getTransactionReceipt", json!([th])) {
            Ok(r2) => ensure!(&r2 == r, "receipt-by-hash-differs-from-returned", {"height": h, "index": i, "returned": trunc(r), "served": trunc(&r2)}),
            Err(e) => return Some(Violation::new("receipt-by-hash-differs-from-returned", json!({"height": h, "index": i, "resp": e}))),
        }
        let tx = match ok(w, "eth_getTransactionByHash", json!([th])) {
            Ok(t) if !t.is_null() => t,
            other => return Some(Violation::new("tx-by-hash-missing", json!({"height": h, "index": i, "hash": th, "resp": format!("{:?}", other)}))),
        };
        ensure!(hex_u64(&tx["transactionIndex"]) == Some(i) && hex_u64(&tx["blockNumber"]) == Some(h) && tx["blockHash"].as_str() == Some(bhash.as_str()) && tx["hash"].as_str() == Some(th.as_str()),
            "tx-position-mismatch", {"height": h, "index": i, "block_hash": bhash, "tx": trunc(&tx)});
        for (m, p) in [("eth_getTransactionByBlockNumberAndIndex", json!([h, i])), ("eth_getTransactionByBlockHashAndIndex", json!([bhash, i]))] {
            match ok(w, m, p) {
                Ok(t2) => ensure!(t2 == tx, format!("tx-by-position-differs/{m}"), {"height": h, "index": i, "byHash": trunc(&tx), "byPosition": trunc(&t2)}),
                Err(e) => return Some(Violation::new(format!("tx-by-position-differs/{m}"), json!({"height": h, "resp": e}))),
            }
        }
        ensure!(full["transactions"].get(i as usize) == Some(&tx), "full-block-tx-differs", {"height": h, "index": i, "full": full["transactions"].get(i as usize).map(trunc), "byHash": trunc(&tx)});
        // inscription id <-> receipt
        let id = ok(w, "brc20_getInscriptionIdByTxHash", json!([th])).unwrap_or(Value::Null);
        let own = rec.receipts[i as usize]["own"].as_bool().unwrap_or(false);
        if own {
            ensure!(id.as_str() == rec.receipts[i as usize]["insc"].as_str(), "inscription-id-of-tx-differs", {"height": h, "index": i, "supplied": rec.receipts[i as usize]["insc"], "served": id});
        }
        if let Some(ids) = id.as_str() {
            match ok(w, "brc20_getTxReceiptByInscriptionId", json!([ids])) {
                Ok(r3) => ensure!(&r3 == r, "receipt-by-inscription-differs", {"height": h, "index": i, "inscription": ids, "returned": trunc(r), "served": trunc(&r3)}),
                Err(e) => return Some(Violation::new("receipt-by-inscription-differs", json!({"height": h, "resp": e}))),
            }
        } else {
            return Some(Violation::new("inscription-id-of-tx-missing", json!({"height": h, "index": i, "hash": th})));
        }
        // contract address -> inscription id (and back)
        if let Some(ca) = r["contractAddress"].as_str() {
            let back = ok(w, "brc20_getInscriptionIdByContractAddress", json!([ca])).unwrap_or(Value::Null);
            ensure!(back == id, "contract-address-to-inscription-mismatch", {"height": h, "index": i, "contract": ca, "tx_inscription": id, "by_contract": back});
        }
        // logs
        let logs = r["logs"].as_array().cloned().unwrap_or_default();
        for l in &logs {
            ensure!(hex_u64(&l["logIndex"]) == Some(log_index) && hex_u64(&l["transactionIndex"]) == Some(i) && l["transactionHash"].as_str() == Some(th.as_str())
                && l["blockHash"].as_str() == Some(bhash.as_str()) && hex_u64(&l["blockNumber"]) == Some(h),
                "log-position-mismatch", {"height": h, "index": i, "expected_log_index": log_index, "log": trunc(l)});
            log_index += 1;
        }
        ensure!(unhex(r["logsBloom"].as_str().unwrap_or("")) == bloom_of_logs(&logs).to_vec(), "receipt-bloom-mismatch", {"height": h, "index": i});
        all_logs.extend(logs);
        cumulative = cumulative.saturating_add(hex_u64(&r["gasUsed"]).unwrap_or(0));
        ensure!(hex_u64(&r["cumulativeGasUsed"]) == Some(cumulative), "cumulative-gas-not-running-sum", {"height": h, "index": i, "cumulativeGasUsed": r["cumulativeGasUsed"], "running_sum": cumulative});
        txs.push(tx);
    }
    ensure!(hex_u64(&blk["gasUsed"]) == Some(cumulative), "block-gas-used-mismatch", {"height": h, "block.gasUsed": blk["gasUsed"], "sum": cumulative});
    ensure!(unhex(blk["logsBloom"].as_str().unwrap_or("")) == bloom_of_logs(&all_logs).to_vec(), "block-bloom-mismatch", {"height": h});
    let leaves: Vec<Vec<u8>> = want_hashes.iter().map(|x| unhex(x.as_str().unwrap_or(""))).collect();
    ensure!(unhex(blk["transactionsRoot"].as_str().unwrap_or("")) == merkle_root(&leaves), "transactions-root-mismatch", {"height": h, "transactionsRoot": blk["transactionsRoot"], "tx_count": n});
    // a reverse lookup that names this block's contracts must lead back to the creating transaction
    // raw encodings
    let raw_block = ok(w, "debug_getRawBlock", json!([hx])).unwrap_or(Value::Null);
    let Some(raw) = raw_block.as_str() else {
        return Some(Violation::new("raw-block-missing", json!({"height": h})));
    };
    let bytes = unhex(raw);
    let decoded = match Block::<TxEnvelope>::decode(&mut bytes.as_slice()) {
        Ok(b) => b,
        Err(e) => return Some(Violation::new("raw-block-undecodable", json!({"height": h, "error": e.to_string()}))),
    };
    let hd = &decoded.header;
    ensure!(hd.number == h && format!("0x{}", hex::encode(hd.parent_hash)) == blk["parentHash"].as_str().unwrap_or("")
        && Some(hd.timestamp) == hex_u64(&blk["timestamp"]) && Some(hd.gas_used) == hex_u64(&blk["gasUsed"])
        && format!("0x{}", hex::encode(hd.transactions_root)) == blk["transactionsRoot"].as_str().unwrap_or("")
        && hd.logs_bloom.as_slice() == unhex(blk["logsBloom"].as_str().unwrap_or("")).as_slice(),
        "raw-header-fields-differ", {"height": h, "header": format!("{:?}", hd).chars().take(600).collect::<String>(), "block": trunc(&blk)});
    let raw_header = ok(w, "debug_getRawHeader", json!([hx])).unwrap_or(Value::Null);
    {
        let mut hb = Vec::new();
        alloy_rlp::Encodable::encode(hd, &mut hb);
        ensure!(raw_header.as_str().map(unhex) == Some(hb), "raw-header-differs-from-raw-block-header", {"height": h});
    }
    ensure!(decoded.body.transactions.len() == txs.len(), "raw-block-tx-count-differs", {"height": h, "raw": decoded.body.transactions.len(), "accepted": txs.len()});
    for (i, (rt, tx)) in decoded.body.transactions.iter().zip(txs.iter()).enumerate() {
        if tx.is_null() {
            continue;
        }
        let to = rt.to().map(|a| format!("0x{}", hex::encode(a)));
        let tx_to = tx["to"].as_str().map(|s| s.to_lowercase());
        // the raw encoding writes a create as an empty `to`; the zero address also denotes creation there
        let to_ok = to == tx_to || (to.is_none() && tx_to.as_deref() == Some("0x0000000000000000000000000000000000000000"));
        ensure!(Some(rt.nonce()) == hex_u64(&tx["nonce"]) && to_ok && format!("0x{}", hex::encode(rt.input())) == tx["input"].as_str().unwrap_or("").to_lowercase()
            && Some(rt.gas_limit()) == hex_u64(&tx["gas"]),
            "raw-block-tx-differs-or-out-of-order", {"height": h, "index": i, "raw": {"nonce": rt.nonce(), "to": to, "gas": rt.gas_limit(), "input": trunc(&json!(hex::encode(rt.input())))}, "tx": trunc(tx)});
    }
    let raw_receipts = ok(w, "debug_getRawReceipts", json!([hx])).unwrap_or(Value::Null);
    let rr = raw_receipts.as_array().cloned().unwrap_or_default();
    ensure!(rr.len() == receipts.len(), "raw-receipts-count-differs", {"height": h, "raw": rr.len(), "accepted": receipts.len()});
    for (i, (raw, r)) in rr.iter().zip(receipts.iter()).enumerate() {
        if reused.contains_key(r["transactionHash"].as_str().unwrap_or("")) {
            continue;
        }
        let b = unhex(raw.as_str().unwrap_or(""));
        let d = match ReceiptWithBloom::<alloy::consensus::Receipt>::decode(&mut b.as_slice()) {
            Ok(d) => d,
            Err(e) => return Some(Violation::new("raw-receipt-undecodable", json!({"height": h, "index": i, "error": e.to_string()}))),
        };
        let status_ok = d.receipt.status.coerce_status() == (hex_u64(&r["status"]) == Some(1));
        let logs = r["logs"].as_array().cloned().unwrap_or_default();
        let logs_ok = d.receipt.logs.len() == logs.len()
            && d.receipt.logs.iter().zip(logs.iter()).all(|(a, b)| {
                format!("0x{}", hex::encode(a.address)) == b["address"].as_str().unwrap_or("").to_lowercase()
                    && a.data.topics().iter().map(|t| json!(format!("0x{}", hex::encode(t)))).collect::<Vec<_>>() == b["topics"].as_array().cloned().unwrap_or_default()
                    && format!("0x{}", hex::encode(&a.data.data)) == b["data"].as_str().unwrap_or("")
            });
        ensure!(status_ok && Some(d.receipt.cumulative_gas_used) == hex_u64(&r["cumulativeGasUsed"]) && logs_ok && d.logs_bloom.as_slice() == unhex(r["logsBloom"].as_str().unwrap_or("")).as_slice(),
            "raw-receipt-differs-or-out-of-order", {"height": h, "index": i, "receipt": trunc(r)});
    }
    None
}

/// reverse direction for addresses that carry code
pub fn check_reverse_lookups(w: &mut World) -> Option<Violation> {
    let addrs: Vec<String> = w.uni.addresses.iter().cloned().collect();
    for a in addrs {
        let id = ok(w, "brc20_getInscriptionIdByContractAddress", json!([a])).unwrap_or(Value::Null);
        let Some(ids) = id.as_str() else { continue };
        let code = ok(w, "eth_getCode", json!([a])).unwrap_or(Value::Null);
        if code.as_str().map(|c| c.len() <= 2).unwrap_or(true) {
            continue;
        }
        let r = ok(w, "brc20_getTxReceiptByInscriptionId", json!([ids])).unwrap_or(Value::Null);
        ensure!(r["contractAddress"].as_str().map(|s| s.to_lowercase()) == Some(a.to_lowercase()), "inscription-of-contract-does-not-create-it", {"contract": a, "inscription": ids, "receipt": trunc(&r)});
    }
    None
}

impl Prop for C06 {
    fn id(&self) -> &'static str {
        "C06"
    }
    fn runs(&self, tier: Tier) -> u64 {
        match tier {
            Tier::Quick => 800,
            Tier::Thorough => 8000,
        }
    }
    fn generate(&self, seed: u64, _tier: Tier) -> Value {
        let rng = Rng::new(seed);
        let p = profile(&mut rng.derive("profile"));
        let mut g = Gen::new(rng.derive("workload"), &p);
        case_of(&g.scenario())
    }
    fn rule(&self) -> String {
        "case = seeded history (multi-tx blocks with failed / reverted / validation-failed txs, drained pending txs, contract-created contracts, empty blocks, reorg + regrowth, all commit schedules, hash seeds). Monitor after every finalise over the newest blocks and at the end over all heights: contiguity, parentHash, hash<->number, block tx list == accepted receipts in order, tx/receipt/(block,idx)/inscription lookups agree, contiguous log indexes, cumulative gas running sum == block gasUsed, blooms recomputed with an own M3:2048, transactionsRoot recomputed with an own SHA-256 merkle, raw header/block/receipts RLP-decoded with alloy in the harness and compared field by field in order, contract address <-> inscription id both ways. distinct = sha256 of op list; non-trivial = a block with >=2 transactions was checked; at the end the block tags are resolved (latest / safe / finalized = tip, earliest = block 0, pending = the height being built, decimal strings = the heights they spell) through eth_getBlockByNumber, the block transaction count, raw header / raw block and eth_getLogs and compared with the same query by number".into()
    }
    fn assumptions(&self) -> Vec<String> {
        vec!["the contract-address -> inscription-id reverse direction is judged only for addresses that carry code".into()]
    }
    fn execute(&self, case: &Value) -> RunOut {
        let sc = scenario_of(case);
        setup(&sc);
        let timer = Timer::start();
        let mut w = World::new(Instance::fresh_seeded("c06", sc.hash_seed), sc.config.clone());
        let mut nontrivial = false;
        let mut violation: Option<Violation> = None;
        'ops: for (i, op) in sc.ops.iter().enumerate() {
            let before = w.height;
            let rs = w.exec(i, op);
            if let Some(p) = any_panic(&rs) {
                violation = Some(Violation::new("panic-in-history", json!({"op": i, "kind": op.kind_name(), "panic": p})));
                break 'ops;
            }
            if w.open.is_none() && w.height != before {
                if let Some(h) = w.height {
                    let lo = h.saturating_sub(2);
                    for k in lo..=h {
                        if w.chain.iter().any(|b| b.height == k) {
                            if w.chain.iter().find(|b| b.height == k).map(|b| b.receipts.len() >= 2).unwrap_or(false) {
                                nontrivial = true;
                                w.stats.bump("probe_multi_tx_block_checked");
                            }
                            if let Some(mut v) = check_block(&mut w, k) {
                                v.detail["op"] = json!(i);
                                violation = Some(v);
                                break 'ops;
                            }
                        }
                    }
                }
            }
        }
        if violation.is_none() && w.open.is_none() {
            let heights: Vec<u64> = w.chain.iter().map(|b| b.height).collect();
            for k in heights {
                if let Some(mut v) = check_block(&mut w, k) {
                    v.detail["op"] = json!("final");
                    violation = Some(v);
                    break;
                }
            }
            if violation.is_none() && reused_hashes(&w).is_empty() {
                violation = check_reverse_lookups(&mut w);
            }
            if violation.is_none() {
                violation = check_tags(&mut w);
            }
            if violation.is_none() {
                let reused = reused_hashes(&w);
                if let Some((hash, (at, reason))) = reused.iter().next() {
                    violation = Some(Violation::new(
                        format!("tx-hash-reused/{reason}"),
                        json!({"hash": hash, "occurrences(height,index)": at, "network": w.cfg.network}),
                    ));
                }
            }
        }
        finish(&sc, &[&w], nontrivial, &timer, violation)
    }
}
