pub mod common;
pub mod c01;

use crate::framework::Prop;

pub fn all() -> Vec<&'static dyn Prop> {
    vec![&c01::C01]
}
