pub mod common;
pub mod c01;
pub mod c02;
pub mod c03;
pub mod c04;
pub mod c05;
pub mod c06;
pub mod c07;
pub mod c08;
pub mod c09;
pub mod c09t;
pub mod c10;
pub mod c11;
pub mod c12;
pub mod c13;
pub mod c16;
pub mod c17;
pub mod c18;
pub mod c19;
pub mod c20;

use crate::framework::Prop;

pub fn all() -> Vec<&'static dyn Prop> {
    vec![&c01::C01, &c02::C02, &c03::C03, &c04::C04, &c05::C05, &c06::C06, &c07::C07, &c08::C08, &c09::C09, &c10::C10, &c11::C11, &c12::C12, &c13::C13, &c16::C16, &c17::C17, &c18::C18, &c19::C19, &c20::C20]
}
