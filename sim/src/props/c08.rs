//! C08 - signed transactions execute once, in nonce order, via a bounded pending pool.
use super::common::*;
use crate::framework::{Prop, RunOut, Tier, Violation};
use crate::inst::{Instance, Resp, SimConfig};
use crate::ops::*;
use crate::rng::Rng;
use crate::world::{addr_str, hex_u64, signer, World, BASE_TS, N_SIGNERS};
use serde_json::{json, Value};
use std::collections::BTreeMap;

pub struct C08;

const WINDOW_NONCES: u64 = 10;
const WINDOW_BLOCKS: u64 = 10;

/// reference pool: per signer the account nonce and the waiting set (nonce -> arrival block)
#[derive(Clone, Default, Debug)]
struct Pool {
    nonce: BTreeMap<u8, u64>,
    waiting: BTreeMap<(u8, u64), u64>,
}

impl Pool {
    fn n(&self, s: u8) -> u64 {
        self.nonce.get(&s).cloned().unwrap_or(0)
    }
    /// a well-formed transaction of signer `s` with nonce `k` arrives while block `b` is being built;
    /// returns how many transactions must execute in this call
    fn arrive(&mut self, s: u8, k: u64, b: u64) -> u64 {
        let n = self.n(s);
        if k < n || k >= n + WINDOW_NONCES {
            return 0;
        }
        if k > n {
            self.waiting.insert((s, k), b);
            return 0;
        }
        let mut executed = 1;
        let mut next = n + 1;
        loop {
            match self.waiting.get(&(s, next)).cloned() {
                Some(arrived) if arrived + WINDOW_BLOCKS > b => {
                    self.waiting.remove(&(s, next));
                    executed += 1;
                    next += 1;
                }
                Some(_) => {
                    // too old: dropped, and with it the chain of successors stops here
                    self.waiting.remove(&(s, next));
                    break;
                }
                None => break,
            }
        }
        self.nonce.insert(s, n + executed);
        executed
    }
    /// entries that must be shown / may be shown after block `b` was finalised
    fn visible(&self, b: u64) -> (Vec<(u8, u64)>, Vec<(u8, u64)>) {
        let mut must = vec![];
        let mut may = vec![];
        for ((s, k), a) in &self.waiting {
            let n = self.n(*s);
            if *k < n {
                continue;
            }
            if a + WINDOW_BLOCKS > b + 1 {
                must.push((*s, *k));
            } else if a + WINDOW_BLOCKS + 1 > b {
                may.push((*s, *k));
            }
        }
        (must, may)
    }
    fn expire(&mut self, b: u64) {
        // strictly dead entries can be forgotten; edge entries are handled by `arrive`
        self.waiting.retain(|_, a| *a + WINDOW_BLOCKS + 1 > b);
    }
}

fn payload(id: u32) -> Cd {
    Cd::Sstore(vec![(id as u64 % 5, id as u64)])
}

fn signed(id: u32, s: u8, rel: i64, chain_ok: bool) -> Tx {
    Tx {
        id,
        kind: TxKind::Transact { signer: s, nonce: NonceSpec::Rel(rel), to: Some(Target::Contract(0)), data: payload(id), deploy: None, chain_ok },
        len: LenPolicy::Generous,
        enc: Enc::Hex,
    }
}

fn gen_random(rng: &mut Rng) -> Vec<Op> {
    let mut ops = vec![];
    let mut id = 100u32;
    let n_blocks = rng.range(10, 40);
    let mut ts = 10;
    let mut tag = 70_000u32;
    for _ in 0..n_blocks {
        ts += 1;
        tag += 1;
        let n = rng.range(0, 3);
        let mut txs = vec![];
        for _ in 0..n {
            id += 1;
            let s = rng.below(N_SIGNERS as u64) as u8;
            let tx = match rng.below(40) {
                0..=13 => signed(id, s, 0, true),
                14..=19 => signed(id, s, 1, true),
                20..=23 => signed(id, s, 2, true),
                24..=26 => signed(id, s, rng.range(3, 9) as i64, true),
                27..=28 => signed(id, s, -1, true),
                29..=30 => signed(id, s, 10, true),
                31 => signed(id, s, rng.range(11, 14) as i64, true),
                32 => signed(id, s, *rng.pick(&[0i64, 0, 1, 2]), false),
                33..=35 => Tx {
                    id,
                    kind: TxKind::Call { sender: rng.below(4) as u8, target: Target::Contract(0), by_inscription: false, data: payload(id) },
                    len: LenPolicy::Generous,
                    enc: Enc::Hex,
                },
                36 => Tx { id, kind: TxKind::Deposit { to: Who::Pk(0), ticker: 0, amount: Amount::Small(5) }, len: LenPolicy::Generous, enc: Enc::Hex },
                37 | 38 => {
                    // byte-identical re-inscription of an earlier signed transaction (waiting, executed or dropped)
                    let of = 100 + rng.range(1, (id - 100).max(1) as u64) as u32;
                    Tx { id, kind: TxKind::Resend { of }, len: LenPolicy::Generous, enc: Enc::Hex }
                }
                // the same nonce again right away (replacement of a waiting nonce by another payload)
                _ => signed(id, s, *rng.pick(&[1i64, 1, 2]), true),
            };
            txs.push(tx);
        }
        ops.push(Op::Block { ts, hash: if rng.chance(1, 2) { HashMode::Zero } else { HashMode::Explicit(tag) }, txs, finalise: true });
        if rng.chance(1, 7) {
            ops.push(Op::Mine { n: *rng.pick(&[1u64, 2, 6, 7, 8, 9, 10]) });
        }
        if rng.chance(1, 10) {
            ops.push(Op::Commit);
        }
        if rng.chance(1, 12) {
            ops.push(Op::Reorg { back: *rng.pick(&[1i64, 1, 2, 3, 9, 10]) });
        }
    }
    ops
}

/// window-edge scenario: nonces 1..=m parked in a chosen order with chosen gaps, nonce 0 arrives `age` blocks later
fn gen_edge(rng: &mut Rng) -> Vec<Op> {
    let mut ops = vec![];
    let mut id = 500u32;
    let s = rng.below(N_SIGNERS as u64) as u8;
    let m = rng.range(1, 3);
    let mut order: Vec<u64> = (1..=m).collect();
    rng.shuffle(&mut order);
    let mut ts = 20;
    let mut gap_total = 0;
    for k in &order {
        id += 1;
        ts += 1;
        ops.push(Op::Block { ts, hash: HashMode::Zero, txs: vec![signed(id, s, *k as i64, true)], finalise: true });
        let gap = rng.below(3);
        if gap > 0 {
            ops.push(Op::Mine { n: gap });
            gap_total += gap;
        }
        gap_total += 1;
    }
    // sometimes the oldest parked transaction is inscribed again (identical bytes) a few blocks later,
    // which restarts its window
    let first_parked = 501u32;
    if rng.chance(1, 3) {
        let k = rng.range(1, 7);
        ops.push(Op::Mine { n: k });
        gap_total += k;
        id += 1;
        ts += 1;
        ops.push(Op::Block { ts, hash: HashMode::Zero, txs: vec![Tx { id, kind: TxKind::Resend { of: first_parked }, len: LenPolicy::Generous, enc: Enc::Hex }], finalise: true });
        gap_total += 1;
    }
    // age of the first parked nonce when nonce 0 arrives: 8..=12 (up to 16 after a re-inscription)
    let age = rng.range(8, 16);
    if age > gap_total {
        ops.push(Op::Mine { n: age - gap_total });
    }
    id += 1;
    ts += 1;
    let mut txs = vec![signed(id, s, 0, true)];
    if rng.chance(1, 2) {
        id += 1;
        txs.push(Tx { id, kind: TxKind::Call { sender: 1, target: Target::Contract(0), by_inscription: false, data: payload(id) }, len: LenPolicy::Generous, enc: Enc::Hex });
    }
    ops.push(Op::Block { ts, hash: HashMode::Zero, txs, finalise: true });
    ts += 1;
    id += 1;
    ops.push(Op::Block { ts, hash: HashMode::Zero, txs: vec![signed(id, s, 0, true)], finalise: true });
    ops
}

fn gen_case(seed: u64) -> Scenario {
    let rng = Rng::new(seed);
    let mut r = rng.derive("workload");
    let network = r.pick(&["signet", "regtest", "mainnet", "testnet4"]).to_string();
    let mut ops = vec![Op::Init { hash: HashMode::Zero }, Op::Commit];
    ops.push(Op::Block {
        ts: 5,
        hash: HashMode::Zero,
        txs: vec![Tx { id: 3, kind: TxKind::Deploy { sender: 0, prog: DeployProg::Store }, len: LenPolicy::Generous, enc: Enc::Hex }],
        finalise: true,
    });
    if r.chance(1, 3) {
        ops.extend(gen_edge(&mut r));
        if r.chance(1, 2) {
            ops.extend(gen_random(&mut r).into_iter().take(12));
        }
    } else {
        ops.extend(gen_random(&mut r));
    }
    Scenario { config: SimConfig { network, traces: false, ..SimConfig::default() }, hash_seed: r.next(), ops }
}

impl Prop for C08 {
    fn id(&self) -> &'static str {
        "C08"
    }
    fn runs(&self, tier: Tier) -> u64 {
        match tier {
            Tier::Quick => 1600,
            Tier::Thorough => 12000,
        }
    }
    fn generate(&self, seed: u64, _tier: Tier) -> Value {
        case_of(&gen_case(seed))
    }
    fn shrink(&self, case: &Value) -> Vec<Value> {
        let head = case["ops"].as_array().map(|a| a.iter().take(3).cloned().collect::<Vec<_>>()).unwrap_or_default();
        crate::framework::shrink_ops(case)
            .into_iter()
            .filter(|c| c["ops"].as_array().map(|a| a.iter().take(3).cloned().collect::<Vec<_>>() == head).unwrap_or(false))
            .collect()
    }
    fn rule(&self) -> String {
        "case = a faulty channel of signed legacy transactions of 3 signers (nonce relative to the account: in order, 1..9 ahead, stale, exactly 10 ahead, beyond, wrong chain id (another id, the neighbouring id, or a pre-EIP-155 signature without any chain id), duplicates / replacements of a waiting nonce) interleaved with inscription transactions, idle gaps of 1..10 mined blocks, commits and reorgs; one third of the runs are window-edge scenarios (1-3 parked nonces in every arrival order, predecessor arriving when the oldest is 8..12 blocks old). Reference pool model (constants 10/10 from the statement): expected number of receipts per brc20_transact, nonce and index of every receipt, eth_getTransactionCount, txpool_content (entries whose expiry falls on the neighbouring block may or may not be listed), executed nonces per signer consecutive from 0; a well-formed call must not be rejected, and the block must finalise with the counted number of transactions. distinct = sha256 of op list; non-trivial = at least one parked transaction was drained or dropped at expiry".into()
    }
    fn assumptions(&self) -> Vec<String> {
        vec![
            "a replacement of a waiting nonce is modelled as last-wins (payload and arrival block); the statement does not fix it".into(),
            "when a waiting successor has expired, the chain of successors stops there (the next nonce cannot run without its predecessor)".into(),
        ]
    }
    fn execute(&self, case: &Value) -> RunOut {
        let sc = scenario_of(case);
        setup(&sc);
        let timer = Timer::start();
        let mut w = World::new(Instance::fresh_seeded("c08", sc.hash_seed), sc.config.clone());
        let mut pool = Pool::default();
        let mut snaps: BTreeMap<u64, Pool> = BTreeMap::new();
        let mut violation: Option<Violation> = None;
        let mut nontrivial = false;
        let saddr: Vec<String> = (0..N_SIGNERS).map(|i| addr_str(&signer(i).address())).collect();
        // (signer, absolute nonce) of every signed transaction sent so far, by scenario tx id
        let mut sent: BTreeMap<u32, (u8, u64)> = BTreeMap::new();

        'ops: for (i, op) in sc.ops.iter().enumerate() {
            let height_before = w.height;
            match op {
                Op::Block { ts, hash, txs, finalise } => {
                    w.op_index = i;
                    let ts = BASE_TS + *ts;
                    for tx in txs {
                        let b = w.next_height();
                        let idx_before = w.open.as_ref().map_or(0, |o| o.txs);
                        // what the model expects, decided before the call
                        let expect: Option<(u8, u64, u64)> = match &tx.kind {
                            TxKind::Transact { signer: s, nonce: NonceSpec::Rel(k), chain_ok, .. } => {
                                let s = *s % N_SIGNERS;
                                let n = pool.n(s);
                                let k_abs = (n as i64 + *k).max(0) as u64;
                                if !*chain_ok {
                                    Some((s, k_abs, 0))
                                } else {
                                    let waiting_before = pool.waiting.len();
                                    let e = pool.arrive(s, k_abs, b);
                                    if e > 1 {
                                        nontrivial = true;
                                        w.stats.add("probe_drained_pending", e - 1);
                                    }
                                    if e >= 1 && pool.waiting.len() + (e as usize - 1) < waiting_before {
                                        nontrivial = true;
                                        w.stats.bump("probe_dropped_at_expiry");
                                    }
                                    if e == 0 && k_abs > n && k_abs < n + WINDOW_NONCES {
                                        w.stats.bump("probe_parked");
                                    }
                                    Some((s, k_abs, e))
                                }
                            }
                            TxKind::Resend { of } => match sent.get(of).cloned() {
                                Some((s, k_abs)) => {
                                    let was_waiting = pool.waiting.contains_key(&(s, k_abs));
                                    let e = pool.arrive(s, k_abs, b);
                                    if was_waiting && e == 0 {
                                        w.stats.bump("probe_waiting_tx_reinscribed");
                                    }
                                    if e > 1 {
                                        nontrivial = true;
                                    }
                                    Some((s, k_abs, e))
                                }
                                None => None,
                            },
                            _ => None,
                        };
                        if matches!(tx.kind, TxKind::Resend { .. }) && expect.is_none() {
                            continue; // refers to something that was never sent as a signed transaction
                        }
                        if let (TxKind::Transact { chain_ok: true, .. }, Some((s, k_abs, _))) = (&tx.kind, &expect) {
                            sent.insert(tx.id, (*s, *k_abs));
                        }
                        let r = w.exec_tx(ts, hash, tx);
                        if let Resp::Panic(p) = &r {
                            violation = Some(Violation::new("panic-in-transact", json!({"op": i, "tx": tx.id, "panic": p})));
                            break 'ops;
                        }
                        let Some((s, k_abs, want)) = expect else {
                            if r.is_err() {
                                violation = Some(Violation::new("inscription-tx-rejected/tx-index-desync", json!({"op": i, "tx": tx.id, "resp": r.to_value(), "tx_idx_sent": idx_before})));
                                break 'ops;
                            }
                            continue;
                        };
                        let receipts = match &r {
                            Resp::Ok(Value::Array(a)) => a.clone(),
                            other => {
                                violation = Some(Violation::new(
                                    if want > 0 { "transact-failed-after-or-instead-of-executing" } else { "well-formed-transact-rejected" },
                                    json!({"op": i, "tx": tx.id, "signer": s, "nonce": k_abs, "expected_receipts": want, "resp": other.to_value(), "block": b}),
                                ));
                                break 'ops;
                            }
                        };
                        if receipts.len() as u64 != want {
                            violation = Some(Violation::new(
                                if (receipts.len() as u64) < want { "fewer-receipts-than-expected" } else { "more-receipts-than-expected" },
                                json!({"op": i, "tx": tx.id, "signer": s, "nonce": k_abs, "block": b, "expected_receipts": want, "got": receipts.len(), "model_nonce_after": pool.n(s)}),
                            ));
                            break 'ops;
                        }
                        for (j, rc) in receipts.iter().enumerate() {
                            let th = rc["transactionHash"].as_str().unwrap_or("");
                            let t = match w.inst.call("eth_getTransactionByHash", json!([th])) {
                                Resp::Ok(v) => v,
                                _ => Value::Null,
                            };
                            let ok = rc["from"].as_str().map(|x| x.to_lowercase()) == Some(saddr[s as usize].clone())
                                && hex_u64(&t["nonce"]) == Some(k_abs + j as u64)
                                && hex_u64(&rc["transactionIndex"]) == Some(idx_before + j as u64);
                            if !ok {
                                violation = Some(Violation::new(
                                    "receipt-not-in-nonce-or-index-order",
                                    json!({"op": i, "tx": tx.id, "position": j, "expected": {"from": saddr[s as usize], "nonce": k_abs + j as u64, "index": idx_before + j as u64}, "receipt": trunc(rc), "tx_nonce": t["nonce"]}),
                                ));
                                break 'ops;
                            }
                        }
                        let got_n = w.account_nonce(&signer(s).address());
                        if got_n != pool.n(s) {
                            violation = Some(Violation::new("account-nonce-differs-from-model", json!({"op": i, "tx": tx.id, "signer": s, "eth_getTransactionCount": got_n, "model": pool.n(s)})));
                            break 'ops;
                        }
                    }
                    if *finalise {
                        let b = w.next_height();
                        let r = w.finalise(ts, hash);
                        if !r.is_ok() {
                            violation = Some(Violation::new("finalise-rejected/tx-count-desync", json!({"op": i, "resp": r.to_value(), "counted": w.open.as_ref().map(|o| o.txs)})));
                            break 'ops;
                        }
                        pool.expire(b);
                        snaps.insert(b, pool.clone());
                    }
                }
                _ => {
                    let rs = w.exec(i, op);
                    if let Some(p) = any_panic(&rs) {
                        violation = Some(Violation::new("panic-in-history", json!({"op": i, "panic": p})));
                        break 'ops;
                    }
                    match op {
                        Op::Mine { .. } | Op::Init { .. } => {
                            if let Some(h) = w.height {
                                for k in height_before.map_or(0, |x| x + 1)..=h {
                                    pool.expire(k);
                                    snaps.insert(k, pool.clone());
                                }
                            }
                        }
                        Op::Reorg { .. } | Op::ClearCaches | Op::Restart { .. } => {
                            if w.height != height_before {
                                pool = w.height.and_then(|h| snaps.get(&h).cloned()).unwrap_or_default();
                                if let Some(h) = w.height {
                                    snaps.retain(|k, _| *k <= h);
                                }
                                w.stats.bump("probe_pool_rolled_back");
                            }
                        }
                        _ => {}
                    }
                }
            }
            // txpool view at block boundaries
            if w.open.is_none() {
                if let Some(h) = w.height {
                    let (must, may) = pool.visible(h);
                    let content = match w.inst.call("txpool_content", json!([])) {
                        Resp::Ok(v) => v,
                        other => {
                            violation = Some(Violation::new("txpool-content-failed", json!({"op": i, "resp": other.to_value()})));
                            break 'ops;
                        }
                    };
                    let mut shown: Vec<(u8, u64)> = vec![];
                    if let Some(p) = content["pending"].as_object() {
                        for (addr, m) in p {
                            let s = saddr.iter().position(|a| *a == addr.to_lowercase());
                            for (nonce, _) in m.as_object().cloned().unwrap_or_default() {
                                match (s, nonce.parse::<u64>()) {
                                    (Some(s), Ok(n)) => shown.push((s as u8, n)),
                                    _ => shown.push((255, 0)),
                                }
                            }
                        }
                    }
                    shown.sort();
                    for e in &must {
                        if !shown.contains(e) {
                            violation = Some(Violation::new("waiting-tx-missing-from-txpool", json!({"op": i, "height": h, "signer,nonce": e, "shown": shown, "model_waiting": format!("{:?}", pool.waiting)})));
                            break 'ops;
                        }
                    }
                    for e in &shown {
                        if !must.contains(e) && !may.contains(e) {
                            violation = Some(Violation::new("txpool-shows-non-waiting-tx", json!({"op": i, "height": h, "signer,nonce": e, "shown": shown, "model_waiting": format!("{:?}", pool.waiting), "model_nonces": format!("{:?}", pool.nonce)})));
                            break 'ops;
                        }
                    }
                    w.stats.bump("txpool_views_compared");
                }
            }
        }
        finish(&sc, &[&w], nontrivial, &timer, violation)
    }
}
