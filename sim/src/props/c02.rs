//! C02 - replicas fed the same call history agree byte for byte (+ pinned golden digests).
use super::common::*;
use crate::framework::{sha_hex, verif_root, Prop, RunOut, Tier, Violation};
use crate::gen::{CommitSched, Gen, Profile};
use crate::inst::{apply_config, Instance, SimConfig};
use crate::obs::{self, Depth};
use crate::ops::*;
use crate::rng::Rng;
use crate::world::World;
use serde_json::{json, Value};

pub struct C02;

fn profile(rng: &mut Rng) -> Profile {
    let mut p = Profile::default();
    p.blocks = (4, 18);
    p.txs = (0, 5);
    p.commit = CommitSched::Never; // per-replica schedules are applied by the property
    p.p_reorg = (1, 8);
    p.p_mine = (1, 12);
    p.p_read = (1, 6);
    p.w_spin = 0;
    p.signed_chaos = rng.chance(1, 2);
    p
}

/// replica-specific behaviour: when to commit / commit+restart (things the property says must not matter)
#[derive(Clone)]
struct Policy {
    commit_every: u64,
    restart_every: u64,
}

pub fn golden_dir() -> String {
    format!("{}/golden", verif_root())
}

/// Replays an explicit call list on a fresh instance and returns the canonical transcript digest.
/// Error *messages* are dropped (code and data kept) so that rewording is not an alarm.
pub fn golden_transcript(config: &SimConfig, calls: &[Value]) -> (String, Vec<Value>) {
    apply_config(config);
    let mut inst = Instance::fresh_seeded("golden", 0x601d);
    let mut out = vec![];
    for c in calls {
        let r = inst.call(c["method"].as_str().unwrap_or(""), c["params"].clone());
        out.push(r.to_value_nomsg());
    }
    let s = serde_json::to_string(&out).unwrap_or_default();
    (sha_hex(&s), out)
}

pub enum GoldenResult {
    NoReference,
    Match,
    Mismatch(Violation),
}

pub fn golden_check(name: &str) -> GoldenResult {
    let (pv, dv) = brc20_prog::verif::versions();
    let path = format!("{}/{}", golden_dir(), name);
    let Ok(s) = std::fs::read_to_string(&path) else { return GoldenResult::NoReference };
    let Ok(g) = serde_json::from_str::<Value>(&s) else { return GoldenResult::NoReference };
    if g["protocol_version"].as_u64() != Some(pv as u64) || g["db_version"].as_u64() != Some(dv as u64) {
        return GoldenResult::NoReference;
    }
    let config: SimConfig = serde_json::from_value(g["config"].clone()).unwrap_or_default();
    let calls = g["calls"].as_array().cloned().unwrap_or_default();
    let (digest, transcript) = golden_transcript(&config, &calls);
    if Some(digest.as_str()) == g["digest"].as_str() {
        return GoldenResult::Match;
    }
    let per: Vec<String> = transcript.iter().map(|t| sha_hex(&t.to_string())[..12].to_string()).collect();
    let stored: Vec<String> = g["per_call"].as_array().map(|a| a.iter().map(|x| x.as_str().unwrap_or("").to_string()).collect()).unwrap_or_default();
    let k = per.iter().zip(stored.iter()).position(|(a, b)| a != b).unwrap_or(per.len().min(stored.len()));
    GoldenResult::Mismatch(Violation::new(
        format!("golden-digest-mismatch/{}", calls.get(k).and_then(|c| c["method"].as_str()).unwrap_or("?")),
        json!({"golden": name, "first_differing_call": k, "call": calls.get(k).map(trunc), "now": transcript.get(k).map(trunc)}),
    ))
}

/// `sim golden-make`: write the pinned corpora from the current tree (done once, on the repaired unchanged tree)
pub fn golden_make() {
    let _ = std::fs::create_dir_all(golden_dir());
    let (pv, dv) = brc20_prog::verif::versions();
    let nets = ["signet", "regtest", "mainnet"];
    for (k, net) in nets.iter().enumerate() {
        let rng = Rng::new(0x601d + k as u64);
        let mut p = Profile::default();
        p.blocks = (14, 14);
        p.txs = (1, 4);
        p.networks = vec![net];
        p.traces = vec![true];
        p.p_reorg = (1, 6);
        p.p_read = (1, 4);
        p.p_mine = (1, 10);
        p.commit = CommitSched::Random(1, 3);
        p.w_spin = 0;
        p.signed_chaos = true;
        let mut g = Gen::new(rng.derive("workload"), &p);
        let sc = g.scenario();
        setup(&sc);
        let mut w = World::new(Instance::fresh_seeded("golden-make", 0x601d), sc.config.clone());
        for (i, op) in sc.ops.iter().enumerate() {
            w.exec(i, op);
        }
        // plus a full observation at the end, as explicit calls
        let uni = w.uni.clone();
        let before = w.inst.calls;
        let _ = before;
        let mut calls: Vec<Value> = w.log.iter().filter(|c| c.call.method != "<reopen>").map(|c| json!({"method": c.call.method, "params": c.call.params})).collect();
        for (method, params) in obs::queries(&uni) {
            calls.push(json!({"method": method, "params": params}));
        }
        drop(w);
        let (digest, transcript) = golden_transcript(&sc.config, &calls);
        let per: Vec<String> = transcript.iter().map(|t| sha_hex(&t.to_string())[..12].to_string()).collect();
        let out = json!({"protocol_version": pv, "db_version": dv, "config": sc.config, "digest": digest, "per_call": per, "calls": calls});
        let path = format!("{}/corpus-{}-p{}-d{}.json", golden_dir(), net, pv, dv);
        std::fs::write(&path, serde_json::to_string(&out).unwrap()).expect("write golden");
        println!("wrote {path}: {} calls digest {digest}", calls.len());
    }
}

impl Prop for C02 {
    fn id(&self) -> &'static str {
        "C02"
    }
    fn runs(&self, tier: Tier) -> u64 {
        match tier {
            Tier::Quick => 480,
            Tier::Thorough => 4000,
        }
    }
    fn nondeterminism_is_violation(&self) -> bool {
        true
    }
    fn generate(&self, seed: u64, _tier: Tier) -> Value {
        let rng = Rng::new(seed);
        // run 0..k of every batch are the pinned golden corpora (explicit call lists, not regenerated)
        let p = profile(&mut rng.derive("profile"));
        let mut r = rng.derive("replicas");
        if r.chance(1, 3) {
            // mode "shared commits": commits and clearCaches are part of the common call history; the replicas
            // differ in hash seed and in being stopped and reopened right after a commit / a clearCaches
            // (points at which nothing uncommitted exists, so a restart must be unobservable)
            let mut p = p.clone();
            p.commit = CommitSched::Random(1, 5);
            p.p_clear = (1, 6);
            p.p_park_commit = (1, 8);
            p.p_mine = (1, 3);
            p.blocks = (6, 20);
            let mut g = Gen::new(rng.derive("workload"), &p);
            let mut v = case_of(&g.scenario());
            v["shared_commits"] = json!(true);
            v["replicas"] = json!([
                {"hash_seed": r.next(), "restart_after_sync": false},
                {"hash_seed": r.next(), "restart_after_sync": true},
            ]);
            return v;
        }
        let mut g = Gen::new(rng.derive("workload"), &p);
        let mut v = case_of(&g.scenario());
        v["replicas"] = json!([
            {"hash_seed": r.next(), "commit_every": 0, "restart_every": 0},
            {"hash_seed": r.next(), "commit_every": r.range(1, 3), "restart_every": 0},
            {"hash_seed": r.next(), "commit_every": r.range(1, 4), "restart_every": r.range(2, 6)},
        ]);
        v
    }
    fn rule(&self) -> String {
        "case = one seeded history fed to 3 replicas that differ only in hash-container seed, commit schedule, commit-then-restart points and directory; every call result and obs at every block boundary are compared as canonical JSON with list order preserved (only object key order and mineTimestamp canonicalised). Every batch additionally replays the pinned golden corpora /verif/golden/*.json (explicit call lists) and compares the transcript digest for the running (PROTOCOL_VERSION, DB_VERSION); the batch's own determinism re-execution in a second OS process counts as a violation here if it diverges. distinct = sha256 of op list; non-trivial = at least one multi-transaction block and one boundary comparison".into()
    }
    fn assumptions(&self) -> Vec<String> {
        vec![
            "golden digests drop error message text (code and data are kept)".into(),
            "a tree whose version constants differ from every golden file is reported as 'no reference for this version', not as a violation".into(),
        ]
    }
    fn batch_prelude(&self) -> Option<(Value, Violation)> {
        let Ok(rd) = std::fs::read_dir(golden_dir()) else {
            println!("[C02] no golden directory");
            return None;
        };
        let mut files: Vec<_> = rd.filter_map(|e| e.ok()).map(|e| e.path()).filter(|p| p.extension().map(|x| x == "json").unwrap_or(false)).collect();
        files.sort();
        let mut checked = 0;
        for f in files {
            let name = f.file_name().map(|n| n.to_string_lossy().to_string()).unwrap_or_default();
            match golden_check(&name) {
                GoldenResult::NoReference => println!("[C02] golden {name}: no reference for this version"),
                GoldenResult::Match => checked += 1,
                GoldenResult::Mismatch(v) => return Some((json!({"golden_file": name}), v)),
            }
        }
        println!("[C02] golden corpora checked: {checked}");
        None
    }
    fn execute(&self, case: &Value) -> RunOut {
        if let Some(name) = case.get("golden_file").and_then(|v| v.as_str()) {
            let violation = match golden_check(name) {
                GoldenResult::Mismatch(v) => Some(v),
                _ => None,
            };
            return RunOut { digest: sha_hex(name), violation, ..Default::default() };
        }
        let sc = scenario_of(case);
        setup(&sc);
        let timer = Timer::start();
        let reps = case["replicas"].as_array().cloned().unwrap_or_default();
        let mut worlds: Vec<World> = vec![];
        let mut pol: Vec<Policy> = vec![];
        for (k, r) in reps.iter().enumerate() {
            let hs = r["hash_seed"].as_u64().unwrap_or(k as u64);
            worlds.push(World::new(Instance::fresh_seeded(&format!("c02-{k}"), hs), sc.config.clone()));
            pol.push(Policy { commit_every: r["commit_every"].as_u64().unwrap_or(0), restart_every: r["restart_every"].as_u64().unwrap_or(0) });
        }
        if worlds.len() < 2 {
            worlds.push(World::new(Instance::fresh_seeded("c02-x", 1), sc.config.clone()));
            worlds.push(World::new(Instance::fresh_seeded("c02-y", 2), sc.config.clone()));
            pol.push(Policy { commit_every: 0, restart_every: 0 });
            pol.push(Policy { commit_every: 1, restart_every: 3 });
        }
        let mut violation: Option<Violation> = None;
        let mut nontrivial = false;
        let mut multi = false;
        let mut boundaries = 0u64;
        let mut cmp_rng = Rng::new(sc.hash_seed).derive("cmp");

        let shared = case["shared_commits"].as_bool().unwrap_or(false);
        let restart_after_sync: Vec<bool> = reps.iter().map(|r| r["restart_after_sync"].as_bool().unwrap_or(false)).collect();
        'ops: for (i, op) in sc.ops.iter().enumerate() {
            if shared && matches!(op, Op::Commit | Op::ClearCaches) {
                // part of the common history; afterwards nothing uncommitted exists, so stopping and reopening
                // a replica here must not be observable
                let mut results: Vec<Vec<Value>> = vec![];
                for (k, w) in worlds.iter_mut().enumerate() {
                    let open_before = w.open.is_some();
                    let rs = w.exec(i, op);
                    if let Some(p) = any_panic(&rs) {
                        violation = Some(Violation::new("panic-in-history", json!({"op": i, "panic": p})));
                        break 'ops;
                    }
                    results.push(rs.iter().map(|r| r.to_value()).collect());
                    let ok = rs.first().map(|r| r.is_ok()).unwrap_or(false);
                    if ok && restart_after_sync.get(k).cloned().unwrap_or(false) {
                        // an accepted commit with a block "open" means that nothing had been accepted into it (parked
                        // transactions only): they are durable now, and the bookkeeping of the next calls stays as it is
                        let keep_open = if open_before && matches!(op, Op::Commit) { w.open.clone() } else { None };
                        w.exec(i, &Op::Restart { commit_first: false });
                        if keep_open.is_some() {
                            w.open = keep_open;
                            w.stats.bump("probe_replica_restarted_after_commit_of_parked_only_block");
                        }
                        w.stats.bump("probe_replica_restarted_after_sync_point");
                    }
                }
                if results.iter().any(|r| *r != results[0]) {
                    violation = Some(Violation::new("call-result-differs/sync-point", json!({"op": i, "results": results})));
                    break 'ops;
                }
                continue;
            }
            if matches!(op, Op::Commit | Op::ClearCaches | Op::Restart { .. }) {
                continue;
            }
            if let Op::Block { txs, .. } = op {
                if txs.len() >= 2 {
                    multi = true;
                }
            }
            let mut results: Vec<Vec<Value>> = vec![];
            for w in worlds.iter_mut() {
                let rs = w.exec(i, op);
                if let Some(p) = any_panic(&rs) {
                    violation = Some(Violation::new("panic-in-history", json!({"op": i, "panic": p})));
                    break 'ops;
                }
                results.push(rs.iter().map(|r| r.to_value()).collect());
            }
            for k in 1..results.len() {
                if results[k] != results[0] {
                    let j = results[0].iter().zip(results[k].iter()).position(|(x, y)| x != y).unwrap_or(0);
                    let method = worlds[0].log.iter().filter(|c| c.op_index == i).nth(j).map(|c| c.call.method.clone()).unwrap_or_default();
                    violation = Some(Violation::new(
                        format!("call-result-differs/{method}"),
                        json!({"op": i, "call": j, "replica0": results[0].get(j).map(trunc), format!("replica{k}"): results[k].get(j).map(trunc)}),
                    ));
                    break 'ops;
                }
            }
            let boundary = worlds[0].open.is_none();
            if boundary && matches!(op, Op::Block { .. } | Op::Mine { .. } | Op::Reorg { .. }) {
                boundaries += 1;
                // replica-specific commit / restart behaviour
                for (k, w) in worlds.iter_mut().enumerate() {
                    let p = &pol[k];
                    if p.restart_every > 0 && boundaries % p.restart_every == 0 {
                        w.exec(i, &Op::Restart { commit_first: true });
                        w.stats.bump("probe_replica_commit_restart");
                    } else if p.commit_every > 0 && boundaries % p.commit_every == 0 {
                        w.exec(i, &Op::Commit);
                    }
                }
                if cmp_rng.chance(1, 3) {
                    let mut uni = worlds[0].uni.clone();
                    for w in worlds.iter().skip(1) {
                        uni.merge(&w.uni);
                    }
                    let o0 = obs::observe(&mut worlds[0].inst, &uni, Depth::Full);
                    for k in 1..worlds.len() {
                        let ok = obs::observe(&mut worlds[k].inst, &uni, Depth::Full);
                        if let Some((kind, detail)) = first_diff(&o0, &ok) {
                            violation = Some(Violation::new(format!("obs-differs/{kind}"), json!({"op": i, "replicas": [0, k], "diff": detail})));
                            break 'ops;
                        }
                    }
                    if multi {
                        nontrivial = true;
                    }
                }
            }
        }
        if violation.is_none() {
            let mut uni = worlds[0].uni.clone();
            for w in worlds.iter().skip(1) {
                uni.merge(&w.uni);
            }
            let depth = if worlds[0].open.is_some() { Depth::Getters } else { Depth::Full };
            let o0 = obs::observe(&mut worlds[0].inst, &uni, depth);
            for k in 1..worlds.len() {
                let ok = obs::observe(&mut worlds[k].inst, &uni, depth);
                if let Some((kind, detail)) = first_diff(&o0, &ok) {
                    violation = Some(Violation::new(format!("obs-differs/{kind}"), json!({"op": "final", "replicas": [0, k], "diff": detail})));
                    break;
                }
            }
            if multi {
                nontrivial = true;
            }
        }
        let refs: Vec<&World> = worlds.iter().collect();
        finish(&sc, &refs, nontrivial, &timer, violation)
    }
}
