//! C01 - an accepted reorg restores exactly the state as of the chosen block; admission window.
use super::common::*;
use crate::framework::{Prop, RunOut, Tier, Violation};
use crate::gen::{CommitSched, Gen, Profile};
use crate::inst::{Instance, Resp};
use crate::obs::{self, Depth};
use crate::ops::*;
use crate::rng::Rng;
use crate::world::World;
use serde_json::{json, Value};

pub struct C01;

fn profile(rng: &mut Rng) -> Profile {
    let mut p = Profile::default();
    p.blocks = (6, 30);
    p.commit = match rng.below(4) {
        0 => CommitSched::Never,
        1 => CommitSched::Every(1),
        2 => CommitSched::Every(rng.range(2, 5)),
        _ => CommitSched::Random(1, 3),
    };
    p.p_reorg = (1, *rng.pick(&[3u64, 5, 8]));
    p.p_mine = (1, *rng.pick(&[4u64, 8, 20]));
    p.p_clear = if rng.chance(1, 3) { (1, 15) } else { (0, 1) };
    p.p_restart = if rng.chance(1, 3) { (1, 15) } else { (0, 1) };
    p.w_spin = 0;
    // swarm knobs: pending-pool traffic, tiny allowances (validation failures), blocks built in two pieces
    p.signed_chaos = rng.chance(1, 2);
    p.len_variety = rng.chance(1, 3);
    p.p_midblock = if rng.chance(1, 3) { (1, 6) } else { (0, 1) };
    p
}

/// a few fresh blocks fed to both sides after an accepted reorg
fn extension(rng: &mut Rng) -> Vec<Op> {
    let mut p = Profile::default();
    p.txs = (1, 3);
    p.w_spin = 0;
    let mut g = Gen::new(rng.derive("ext"), &p);
    // ids/tags far away from the main scenario's
    let n = g.rng.range(1, 3);
    let mut ops = vec![];
    for _ in 0..n {
        ops.push(g.block(true));
    }
    ops
}

fn renumber(ops: &mut [Op], base: u32) {
    let mut k = base;
    for op in ops.iter_mut() {
        if let Op::Block { txs, hash, .. } = op {
            if let HashMode::Explicit(t) = hash {
                *t = base + 100_000 + k;
            }
            for tx in txs.iter_mut() {
                k += 1;
                tx.id = k;
            }
            k += 1;
        }
    }
}

impl Prop for C01 {
    fn id(&self) -> &'static str {
        "C01"
    }
    fn runs(&self, tier: Tier) -> u64 {
        match tier {
            Tier::Quick => 800,
            Tier::Thorough => 8000,
        }
    }
    fn generate(&self, seed: u64, _tier: Tier) -> Value {
        let mut rng = Rng::new(seed);
        let p = profile(&mut rng.derive("profile"));
        let mut g = Gen::new(rng.derive("workload"), &p);
        let sc = g.scenario();
        let mut v = case_of(&sc);
        v["ext_seed"] = json!(rng.derive("ext").next());
        v
    }
    fn rule(&self) -> String {
        "case = seeded history (init, mine, blocks with deploy/call/transact/deposit/withdraw, commits, clearCaches, restarts) with reorg ops at relative depths {-1,0,1,2,3,5,9,10,11,12}; every reorg is judged by the admission oracle (N<=height and N+10>=max ever finalised) and every accepted one by obs(main)==obs(fresh replay to N) over the joint universe, then both sides are extended with the same fresh blocks. distinct = sha256 of the op list; non-trivial = at least one reorg below the tip was accepted and compared".into()
    }
    fn assumptions(&self) -> Vec<String> {
        vec![
            "brc20_mine(n) is treated as n x brc20_mine(1) when the canonical history is replayed".into(),
            "a reorg to the current height is accepted by the oracle whether it answers OK or an error".into(),
            "brc20_initialise reporting the unreachable Bitcoin node after creating genesis is the environment error the property excludes".into(),
        ]
    }
    fn execute(&self, case: &Value) -> RunOut {
        let sc = scenario_of(case);
        let ext_seed = case.get("ext_seed").and_then(|v| v.as_u64()).unwrap_or(7);
        setup(&sc);
        let timer = Timer::start();
        let mut main = World::new(Instance::fresh("c01-main"), sc.config.clone());
        let mut nontrivial = false;
        let mut violation: Option<Violation> = None;
        let mut ext_round = 0u32;
        let mut twins: Vec<World> = vec![];

        'ops: for (i, op) in sc.ops.iter().enumerate() {
            if let Op::Reorg { back } = op {
                if main.open.is_some() {
                    // reorg while a block is open is C05's subject
                    continue;
                }
                let Some(h) = main.height else {
                    continue;
                };
                let target = (h as i64 - *back).max(0) as u64;
                let m = main.max_finalised.unwrap_or(h);
                let must_accept = target <= h && target + 10 >= m;
                let noop = target == h;
                let before = if !must_accept { Some(obs::observe(&mut main.inst, &main.uni.clone(), Depth::Full)) } else { None };
                main.op_index = i;
                let r = main.reorg_to(target);
                if let Resp::Panic(msg) = &r {
                    violation = Some(Violation::new(
                        "reorg-panic",
                        json!({"op": i, "target": target, "height": h, "max_finalised": m, "must_accept": must_accept, "panic": msg}),
                    ));
                    break 'ops;
                }
                match (must_accept, r.is_ok()) {
                    (true, false) if noop => {}
                    (true, false) => {
                        violation = Some(Violation::new(
                            "refused-inside-window",
                            json!({"op": i, "target": target, "height": h, "max_finalised": m, "resp": r.to_value()}),
                        ));
                        break 'ops;
                    }
                    (false, true) if noop => {
                        // a reorg to the current height is a no-op whatever it answers; it must stay one
                        main.stats.bump("probe_noop_outside_window");
                        let after = obs::observe(&mut main.inst, &main.uni.clone(), Depth::Full);
                        if let Some((kind, detail)) = first_diff(before.as_ref().unwrap(), &after) {
                            violation = Some(Violation::new(format!("noop-reorg-with-effect/{kind}"), json!({"op": i, "target": target, "diff": detail})));
                            break 'ops;
                        }
                    }
                    (false, true) => {
                        violation = Some(Violation::new(
                            "accepted-outside-window",
                            json!({"op": i, "target": target, "height": h, "max_finalised": m}),
                        ));
                        break 'ops;
                    }
                    (false, false) => {
                        main.stats.bump("probe_refused_outside_window");
                        let after = obs::observe(&mut main.inst, &main.uni.clone(), Depth::Full);
                        if let Some((kind, detail)) = first_diff(before.as_ref().unwrap(), &after) {
                            violation = Some(Violation::new(format!("refused-with-effect/{kind}"), json!({"op": i, "target": target, "diff": detail})));
                            break 'ops;
                        }
                    }
                    (true, true) => {
                        if noop {
                            continue;
                        }
                        nontrivial = true;
                        if h - target == 10 {
                            main.stats.bump("probe_reorg_depth_10_accepted");
                        }
                        if m > h {
                            main.stats.bump("probe_reorg_after_regrowth_or_loss");
                        }
                        let mut fresh = fresh_replay(&main.chain, target, "c01-fresh");
                        let uni = main.uni.clone();
                        if let Some((kind, detail)) = compare(&mut main.inst, &mut fresh, &uni, Depth::Full) {
                            violation = Some(Violation::new(
                                format!("state-after-reorg/{kind}"),
                                json!({"op": i, "target": target, "height": h, "max_finalised": m, "diff(main,fresh)": detail}),
                            ));
                            break 'ops;
                        }
                        // extend both with the same new blocks
                        ext_round += 1;
                        let mut ext = extension(&mut Rng::new(ext_seed ^ (i as u64)));
                        renumber(&mut ext, 1_000_000 + ext_round * 1000);
                        let mut twin = main.twin(fresh);
                        twin.record = true;
                        for (k, eop) in ext.iter().enumerate() {
                            let ra = main.exec(i, eop);
                            let rb = twin.exec(i, eop);
                            let va: Vec<Value> = ra.iter().map(|r| r.to_value()).collect();
                            let vb: Vec<Value> = rb.iter().map(|r| r.to_value()).collect();
                            if va != vb {
                                violation = Some(Violation::new(
                                    "extension-results-differ",
                                    json!({"op": i, "target": target, "ext_block": k, "main": va, "fresh": vb}),
                                ));
                                break 'ops;
                            }
                            let mut uni = main.uni.clone();
                            uni.merge(&twin.uni);
                            if let Some((kind, detail)) = compare(&mut main.inst, &mut twin.inst, &uni, Depth::Full) {
                                violation = Some(Violation::new(
                                    format!("state-after-extension/{kind}"),
                                    json!({"op": i, "target": target, "ext_block": k, "diff(main,fresh)": detail}),
                                ));
                                break 'ops;
                            }
                        }
                        main.stats.bump("probe_accepted_reorg_compared");
                        twins.push(twin);
                        if twins.len() > 1 {
                            twins.remove(0);
                        }
                    }
                }
                continue;
            }
            let rs = main.exec(i, op);
            if let Some(p) = any_panic(&rs) {
                violation = Some(Violation::new("panic-in-history", json!({"op": i, "kind": op.kind_name(), "panic": p})));
                break 'ops;
            }
        }
        finish(&sc, &[&main], nontrivial, &timer, violation)
    }
}
