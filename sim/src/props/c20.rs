//! C20 - a database only reopens under the configuration it was created with (fault enumeration, real start()).
use crate::framework::{sha_hex, Prop, RunOut, Tier, Violation};
use crate::http::{Client, Server};
use crate::inst::{copy_dir, fresh_dir};
use crate::world::{pkscript, Stats, ZERO_HASH};
use brc20_prog::verif::Encode;
use serde_json::{json, Value};
use std::cell::RefCell;
use std::path::Path;
use std::rc::Rc;

pub struct C20;

const NETWORKS: [&str; 8] = ["mainnet", "bitcoin", "signet", "testnet", "testnet4", "regtest", "weird", ""];

fn configs() -> Vec<(&'static str, bool)> {
    let mut v = vec![];
    for n in NETWORKS {
        for t in [false, true] {
            v.push((n, t));
        }
    }
    v
}

fn digest(c: &mut Client) -> Result<String, String> {
    let mut s = String::new();
    for (m, p) in [
        ("eth_blockNumber", json!([])),
        ("eth_getBlockByNumber", json!(["0x0", true])),
        ("eth_getBlockByNumber", json!(["0x1", true])),
        ("eth_getBlockByNumber", json!(["0x2", true])),
        ("debug_getRawBlock", json!(["0x1"])),
        ("brc20_balance", json!([pkscript(0), "ordi"])),
        ("brc20_getTxReceiptByInscriptionId", json!(["c20-dep"])),
        ("debug_getBlockTraceString", json!(["0x1"])),
        ("eth_chainId", json!([])),
    ] {
        let mut v = c.call(m, p, None)?;
        if let Some(o) = v.pointer_mut("/result/mineTimestamp") {
            *o = json!("0x0");
        }
        s.push_str(&v.to_string());
    }
    Ok(sha_hex(&s))
}

/// create a database under `cfg`, put two blocks into it, commit, stop; returns the digest served
fn populate(dir: &Path, cfg: (&str, bool)) -> Result<String, String> {
    let srv = Server::start(cfg.0, cfg.1, &dir.to_string_lossy(), None)?;
    let mut c = Client::new(srv.port);
    for (m, p) in [
        ("brc20_initialise", json!([ZERO_HASH, 1_700_000_000u64, 0])),
        ("brc20_deposit", json!([pkscript(0), "ordi", "0x100", 1_700_000_001u64, ZERO_HASH, 0, "c20-dep"])),
        ("brc20_finaliseBlock", json!([1_700_000_001u64, ZERO_HASH, 1])),
        ("brc20_mine", json!([1, 1_700_000_002u64])),
        ("brc20_commitToDatabase", json!([])),
    ] {
        c.call(m, p, None)?;
    }
    let d = digest(&mut c)?;
    drop(c);
    srv.stop();
    Ok(d)
}

/// a small history whose results depend on the configuration: the Probe contract records whether the current-txid
/// helper answers (Prague rules of the network), a signed transaction gets its hash by the network's rule, traces are
/// recorded or not. Returns what the instance serves about it.
pub fn populate_rich(dir: &Path, cfg: (&str, bool)) -> Result<String, String> {
    use crate::programs as pg;
    let srv = Server::start(cfg.0, cfg.1, &dir.to_string_lossy(), None)?;
    let mut c = Client::new(srv.port);
    let simcfg = crate::inst::SimConfig { network: cfg.0.to_string(), ..Default::default() };
    let w = crate::world::World::new(crate::inst::Instance::closed(), simcfg);
    let raw = w.sign_tx(0, 0, Some(crate::world::parse_addr(crate::world::DEAD)), vec![1, 2, 3], true);
    let txid = format!("0x{}", "5a".repeat(32));
    let ts = 1_700_000_001u64;
    c.call("brc20_initialise", json!([ZERO_HASH, 1_700_000_000u64, 0]), None)?;
    let dep = c.call("brc20_deploy", json!([pkscript(0), crate::world::hex0x(&pg::probe_initcode()), null, ts, ZERO_HASH, 0, "c20-probe", 2000, txid]), None)?;
    let probe = dep["result"]["contractAddress"].as_str().unwrap_or("").to_string();
    c.call("brc20_call", json!([pkscript(1), probe, null, crate::world::hex0x(&pg::cd_probe(&[1])), null, ts, ZERO_HASH, 1, "c20-call", 2000, txid]), None)?;
    let signed = c.call("brc20_transact", json!([crate::world::hex0x(&raw), null, ts, ZERO_HASH, 2, "c20-signed", 2000, txid]), None)?;
    let th = signed["result"][0]["transactionHash"].as_str().unwrap_or("").to_string();
    c.call("brc20_finaliseBlock", json!([ts, ZERO_HASH, 3]), None)?;
    c.call("brc20_commitToDatabase", json!([]), None)?;
    let mut s = String::new();
    let mut qs: Vec<(&str, Value)> = vec![
        ("eth_getBlockByNumber", json!(["0x1", true])),
        ("debug_getRawBlock", json!(["0x1"])),
        ("debug_getBlockTraceString", json!(["0x1"])),
        ("eth_getTransactionReceipt", json!([th])),
        ("debug_traceTransaction", json!([th])),
        ("eth_chainId", json!([])),
    ];
    for i in 0..13u64 {
        qs.push(("eth_getStorageAt", json!([probe, format!("0x{:x}", pg::PROBE_BASE + i)])));
    }
    for (m, p) in qs {
        let mut v = c.call(m, p, None)?;
        if let Some(o) = v.pointer_mut("/result/mineTimestamp") {
            *o = json!("0x0");
        }
        s.push_str(&v.to_string());
    }
    drop(c);
    srv.stop();
    if probe.is_empty() || th.is_empty() {
        return Err(format!("rich history did not run: deploy {dep} transact {signed}"));
    }
    Ok(sha_hex(&s))
}

/// `sim c20-child <network> <traces> <dir>`: the rich history in a process that never saw another configuration
pub fn child_main(network: &str, traces: &str, dir: &str, warm: Option<(&str, &str, &str)>) -> i32 {
    if let Some((wn, wt, wd)) = warm {
        // this process's first instance runs under another configuration
        if let Err(e) = populate_rich(Path::new(wd), (wn, wt == "true")) {
            println!("ERROR warm-up: {e}");
            return 3;
        }
    }
    match populate_rich(Path::new(dir), (network, traces == "true")) {
        Ok(d) => {
            println!("DIGEST {d}");
            0
        }
        Err(e) => {
            println!("ERROR {e}");
            3
        }
    }
}

thread_local! { static STARTS: std::cell::Cell<u64> = const { std::cell::Cell::new(0) }; }

fn try_start(dir: &Path, cfg: (&str, bool)) -> Result<String, String> {
    STARTS.with(|s| s.set(s.get() + 1));
    let srv = Server::start(cfg.0, cfg.1, &dir.to_string_lossy(), None)?;
    let mut c = Client::new(srv.port);
    let d = digest(&mut c);
    drop(c);
    srv.stop();
    d
}

fn tamper(dir: &Path, key: &str, new_value: Option<&str>) -> Result<(), String> {
    let mut opts = rocksdb::Options::default();
    opts.create_if_missing(false);
    let db = rocksdb::DB::open(&opts, dir.join("config")).map_err(|e| e.to_string())?;
    let k = key.to_string().encode_vec();
    match new_value {
        Some(v) => db.put(&k, v.to_string().encode_vec()).map_err(|e| e.to_string())?,
        None => db.delete(&k).map_err(|e| e.to_string())?,
    }
    db.flush().map_err(|e| e.to_string())?;
    Ok(())
}

fn read_config(dir: &Path) -> Vec<(String, Option<String>)> {
    let opts = rocksdb::Options::default();
    let Ok(db) = rocksdb::DB::open_for_read_only(&opts, dir.join("config"), false) else {
        return vec![];
    };
    brc20_prog::verif::config_keys()
        .iter()
        .map(|k| {
            let v = db.get(k.clone().encode_vec()).ok().flatten().and_then(|b| {
                use brc20_prog::verif::Decode;
                String::decode_vec(&b).ok()
            });
            (k.clone(), v)
        })
        .collect()
}

fn run_creator(ci: usize) -> (Option<Violation>, Stats, String) {
    let mut stats = Stats::default();
    let mut tr = String::new();
    let all = configs();
    let creator = all[ci % all.len()];
    let base = fresh_dir("c20-base");
    let cleanup = |dirs: &[&Path]| {
        for d in dirs {
            let _ = std::fs::remove_dir_all(d);
        }
    };
    let served = match populate(&base, creator) {
        Ok(d) => d,
        Err(e) => {
            cleanup(&[&base]);
            return (Some(Violation::new("fresh-directory-does-not-start", json!({"config": creator, "error": e}))), stats, tr);
        }
    };
    stats.bump("databases_created");
    // 1. every reopening configuration
    for reopen in &all {
        let d = fresh_dir("c20-try");
        let _ = std::fs::remove_dir_all(&d);
        if let Err(e) = copy_dir(&base, &d) {
            cleanup(&[&base, &d]);
            return (Some(Violation::new("harness/copy", json!({"error": e.to_string()}))), stats, tr);
        }
        let r = try_start(&d, *reopen);
        let same = *reopen == creator;
        stats.bump(if same { "reopen_same_config" } else { "reopen_other_config" });
        tr.push_str(if r.is_ok() { "S" } else { "F" });
        match (&r, same) {
            (Ok(dg), true) => {
                if *dg != served {
                    cleanup(&[&base, &d]);
                    return (Some(Violation::new("reopened-state-differs", json!({"config": creator}))), stats, tr);
                }
            }
            (Err(e), true) => {
                cleanup(&[&base, &d]);
                return (Some(Violation::new("identical-config-does-not-reopen", json!({"config": creator, "error": e}))), stats, tr);
            }
            (Ok(_), false) => {
                cleanup(&[&base, &d]);
                return (
                    Some(Violation::new(
                        format!("reopened-under-different-config/{}", if reopen.0 != creator.0 { "network" } else { "traces" }),
                        json!({"created_with": {"network": creator.0, "traces": creator.1}, "reopened_with": {"network": reopen.0, "traces": reopen.1}}),
                    )),
                    stats,
                    tr,
                );
            }
            (Err(_), false) => {
                // the refused start must not have damaged the data: the original configuration still reopens
                match try_start(&d, creator) {
                    Ok(dg) if dg == served => {}
                    other => {
                        cleanup(&[&base, &d]);
                        return (Some(Violation::new("refused-start-damaged-database", json!({"created_with": creator, "refused": reopen, "then": format!("{:?}", other)}))), stats, tr);
                    }
                }
            }
        }
        let _ = std::fs::remove_dir_all(&d);
    }
    // 2. tampered / missing version records
    let keys = brc20_prog::verif::config_keys();
    for (ki, key) in keys.iter().enumerate() {
        // removed, or altered to several other values (numeric and not, for every key)
        let alternatives: Vec<&str> = match ki {
            0 | 1 => vec!["999", "0", "v-next", "", "7a", "-1", " 7"],
            2 => vec!["another-network", "", "Signet "],
            _ => vec!["flipped", "", "TRUE", "1"],
        };
        let mut actions: Vec<(&str, Option<String>)> = vec![("remove", None)];
        for a in alternatives {
            let v = if a == "flipped" { (!creator.1).to_string() } else { a.to_string() };
            actions.push(("alter", Some(v)));
        }
        for (action, newv) in actions {
            // a value equal to the recorded one is not a tamper
            let recorded = match ki {
                0 => brc20_prog::verif::versions().1.to_string(),
                1 => brc20_prog::verif::versions().0.to_string(),
                2 => creator.0.to_string(),
                _ => creator.1.to_string(),
            };
            if newv.as_deref() == Some(recorded.as_str()) {
                continue;
            }
            let d = fresh_dir("c20-tamper");
            let _ = std::fs::remove_dir_all(&d);
            let _ = copy_dir(&base, &d);
            if let Err(e) = tamper(&d, key, newv.as_deref()) {
                cleanup(&[&base, &d]);
                return (Some(Violation::new("harness/tamper", json!({"error": e}))), stats, tr);
            }
            let r = try_start(&d, creator);
            stats.bump("tampered_records");
            tr.push_str(if r.is_ok() { "S" } else { "F" });
            if r.is_ok() {
                cleanup(&[&base, &d]);
                return (Some(Violation::new(format!("started-with-{action}d-record/{key}"), json!({"config": creator, "key": key, "new_value": newv}))), stats, tr);
            }
            let _ = std::fs::remove_dir_all(&d);
        }
    }
    // 3. non-empty directories without a recorded configuration
    {
        // populated data but no config database at all
        let d = fresh_dir("c20-noconfig");
        let _ = std::fs::remove_dir_all(&d);
        let _ = copy_dir(&base, &d);
        let _ = std::fs::remove_dir_all(d.join("config"));
        let r = try_start(&d, creator);
        stats.bump("foreign_directories");
        tr.push_str(if r.is_ok() { "S" } else { "F" });
        if r.is_ok() {
            cleanup(&[&base, &d]);
            return (Some(Violation::new("started-on-populated-directory-without-config", json!({"config": creator}))), stats, tr);
        }
        let _ = std::fs::remove_dir_all(&d);
        // a foreign non-empty directory
        let d = fresh_dir("c20-foreign");
        let _ = std::fs::write(d.join("somebody-elses-file.txt"), b"hello");
        let r = try_start(&d, creator);
        stats.bump("foreign_directories");
        tr.push_str(if r.is_ok() { "S" } else { "F" });
        if r.is_ok() {
            cleanup(&[&base, &d]);
            return (Some(Violation::new("started-on-foreign-non-empty-directory", json!({"config": creator}))), stats, tr);
        }
        let _ = std::fs::remove_dir_all(&d);
    }
    // 4. crash points inside the first-run recording
    {
        // count the writes of a first run
        let count = Rc::new(RefCell::new(0usize));
        let d0 = fresh_dir("c20-count");
        let c2 = count.clone();
        brc20_prog::verif::set_failpoint(Some(Box::new(move |site| {
            if site.starts_with("config.") {
                *c2.borrow_mut() += 1;
            }
            Ok(())
        })));
        let r0 = try_start(&d0, creator);
        brc20_prog::verif::set_failpoint(None);
        let _ = std::fs::remove_dir_all(&d0);
        if r0.is_err() {
            cleanup(&[&base]);
            return (Some(Violation::new("fresh-directory-does-not-start", json!({"config": creator, "error": r0.err()}))), stats, tr);
        }
        let total = *count.borrow();
        for k in 0..total {
            let d = fresh_dir("c20-crash");
            let hits = Rc::new(RefCell::new(0usize));
            let h2 = hits.clone();
            brc20_prog::verif::set_failpoint(Some(Box::new(move |site| {
                if !site.starts_with("config.") {
                    return Ok(());
                }
                let mut h = h2.borrow_mut();
                let n = *h;
                *h += 1;
                if n >= k {
                    Err("verif: injected process death".to_string())
                } else {
                    Ok(())
                }
            })));
            let first = try_start(&d, creator);
            brc20_prog::verif::set_failpoint(None);
            stats.bump("first_run_crash_points");
            if first.is_ok() {
                cleanup(&[&base, &d]);
                return (Some(Violation::new("harness/crash-not-injected", json!({"k": k}))), stats, tr);
            }
            // restart: fails, or runs with the complete record
            let again = try_start(&d, creator);
            tr.push_str(if again.is_ok() { "S" } else { "F" });
            if again.is_ok() {
                let rec = read_config(&d);
                let want = [brc20_prog::verif::versions().1.to_string(), brc20_prog::verif::versions().0.to_string(), creator.0.to_string(), creator.1.to_string()];
                let complete = rec.iter().zip(want.iter()).all(|((_, v), w)| v.as_deref() == Some(w.as_str()));
                if !complete {
                    cleanup(&[&base, &d]);
                    return (Some(Violation::new("started-under-unrecorded-configuration", json!({"crash_at_write": k, "record": rec, "config": creator}))), stats, tr);
                }
            }
            // and a different configuration must not get in through the half-recorded directory
            let other = if creator.0 == "regtest" { ("signet", creator.1) } else { ("regtest", creator.1) };
            if try_start(&d, other).is_ok() && again.is_err() {
                let rec = read_config(&d);
                cleanup(&[&base, &d]);
                return (Some(Violation::new("half-recorded-directory-accepts-other-config", json!({"crash_at_write": k, "record": rec, "created_with": creator, "started_with": other}))), stats, tr);
            }
            let _ = std::fs::remove_dir_all(&d);
        }
    }
    // 5. what a directory holds is computed under its own configuration, whatever the process ran before: one child
    // process runs another configuration first (other network rules, other trace setting) and then this one, a second
    // child process only ever runs this one; both must serve the same
    {
        let other = (if creator.0 == "mainnet" || creator.0 == "bitcoin" { "regtest" } else { "mainnet" }, !creator.1);
        let run_child = |warm: Option<(&str, bool)>| -> Result<String, String> {
            let d = fresh_dir("c20-child");
            let dw = fresh_dir("c20-child-warm");
            let exe = std::env::current_exe().map_err(|e| e.to_string())?;
            let mut args: Vec<String> = vec!["c20-child".into(), creator.0.into(), creator.1.to_string(), d.to_string_lossy().to_string()];
            if let Some((wn, wt)) = warm {
                args.extend([wn.to_string(), wt.to_string(), dw.to_string_lossy().to_string()]);
            }
            let out = std::process::Command::new(exe).args(&args).stderr(std::process::Stdio::null()).output().map_err(|e| e.to_string());
            let _ = std::fs::remove_dir_all(&d);
            let _ = std::fs::remove_dir_all(&dw);
            let out = out?;
            let text = String::from_utf8_lossy(&out.stdout).to_string();
            text.lines().find_map(|l| l.strip_prefix("DIGEST ").map(|x| x.to_string())).ok_or(text)
        };
        let warm: Result<(), String> = Ok(());
        let here = run_child(Some(other));
        let child_digest = run_child(None).ok();
        stats.bump("configuration_after_another_in_one_process");
        tr.push('P');
        match (&warm, &here, &child_digest) {
            (Ok(_), Ok(h), Some(cd)) => {
                if h != cd {
                    cleanup(&[&base]);
                    return (
                        Some(Violation::new(
                            "data-computed-under-an-earlier-instances-configuration",
                            json!({"config": creator, "ran_before_in_this_process": other, "digest_after_the_other_configuration": h, "digest_in_a_process_of_its_own": cd}),
                        )),
                        stats,
                        tr,
                    );
                }
            }
            _ => {
                cleanup(&[&base]);
                return (Some(Violation::new("harness/rich-history", json!({"warm": warm.err(), "here": here.err(), "child": child_digest}))), stats, tr);
            }
        }
    }
    cleanup(&[&base]);
    stats.add("start_attempts", STARTS.with(|s| s.replace(0)));
    (None, stats, tr)
}

impl Prop for C20 {
    fn id(&self) -> &'static str {
        "C20"
    }
    fn level(&self) -> &'static str {
        "fault_enumeration"
    }
    fn runs(&self, _tier: Tier) -> u64 {
        16
    }
    fn exhaustive(&self) -> bool {
        true
    }
    fn hang_timeout_s(&self) -> u64 {
        400
    }
    fn generate(&self, seed: u64, _tier: Tier) -> Value {
        json!({"creator": seed % 16, "seed": seed})
    }
    fn case_for_run(&self, i: u64, seed: u64, _tier: Tier) -> Value {
        // run i of the batch = creating configuration i
        json!({"creator": i % 16, "seed": seed})
    }
    fn evaluations_from(&self) -> Option<&'static str> {
        Some("start_attempts")
    }
    fn shrink(&self, _case: &Value) -> Vec<Value> {
        vec![]
    }
    fn rule(&self) -> String {
        "case = one creating configuration out of networks {mainnet, bitcoin, signet, testnet, testnet4, regtest, weird, empty string} x traces {off,on} (run i of the batch takes configuration i: 16 runs = all of them). With the real start(): create + populate + commit + stop; then (1) reopen a copy under each of the 16 configurations: identical => starts and serves the same digest, different => start fails and the original configuration still reopens with the same digest; (2) each of the 4 recorded keys removed / altered (to other numbers, non-numeric text, empty, padded, other case) directly in the config RocksDB => start fails; (3) populated directory without config database, foreign non-empty directory => start fails; (4) every write of the first-run recording is a crash point: the restart either fails or runs with the complete record, and a different configuration is never accepted by the half-recorded directory. (5) a child process runs a small history under another configuration (other network family, other trace setting) first and then under the creating configuration on a fresh directory: what it serves (Probe contract context incl. the current-txid helper, hash of a signed transaction, traces, raw block) must equal what a child process that only ever ran the creating configuration serves. distinct = creating configuration; non-trivial = all five groups ran".into()
    }
    fn assumptions(&self) -> Vec<String> {
        vec!["PROTOCOL_VERSION / DB_VERSION cannot vary within one build; they are varied by tampering with the stored record".into()]
    }
    fn components(&self) -> Value {
        json!({"real": ["start()", "validate_config_database / ConfigDatabase", "HTTP server", "engine, RocksDB"], "stub": ["Bitcoin node (unreachable)"]})
    }
    fn execute(&self, case: &Value) -> RunOut {
        let ci = case["creator"].as_u64().unwrap_or(0) as usize;
        let (violation, stats, tr) = run_creator(ci);
        RunOut { digest: sha_hex(&format!("creator-{}", ci % 16)), nontrivial: violation.is_none(), stats, sim_ms: 0, violation, transcript: sha_hex(&tr), states: vec![] }
    }
}
