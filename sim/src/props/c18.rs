//! C18 - eth_getLogs returns exactly the matching logs, in chain order, committed or not.
use super::common::*;
use crate::framework::{Prop, RunOut, Tier, Violation};
use crate::gen::{CommitSched, Gen, Profile};
use crate::inst::{Instance, Resp};
use crate::ops::*;
use crate::rng::Rng;
use crate::world::{hex0x, sha, World, CONTROLLER, DEAD};
use serde_json::{json, Value};

pub struct C18;

fn profile(rng: &mut Rng) -> Profile {
    let mut p = Profile::default();
    p.blocks = (5, 20);
    p.txs = (1, 5);
    p.commit = match rng.below(4) {
        0 => CommitSched::Never,
        1 => CommitSched::Every(1),
        2 => CommitSched::Every(rng.range(2, 6)),
        _ => CommitSched::Random(1, 3),
    };
    p.p_reorg = (1, 10);
    p.p_mine = (1, 15);
    p.w_spin = 0;
    p.w_tx = [2, 10, 2, 3, 1];
    p.commit_after_init = (1, 2);
    p
}

#[derive(Clone, Debug)]
enum TopicF {
    Any,
    One(String),
    Alt(Vec<String>),
}

#[derive(Clone, Debug)]
struct Filter {
    from: Option<String>,
    to: Option<String>,
    from_n: u64,
    to_n: u64,
    address: Option<String>,
    topics: Option<Vec<TopicF>>,
}

fn topic_pool(w: &World) -> Vec<String> {
    let mut v: Vec<String> = (0..5u64).map(|t| hex0x(&sha(&format!("topic-{t}")))).collect();
    // topics that really occur (controller / token events)
    for b in w.chain.iter().rev().take(6) {
        for x in &b.receipts {
            for l in x["receipt"]["logs"].as_array().cloned().unwrap_or_default() {
                for t in l["topics"].as_array().cloned().unwrap_or_default() {
                    if let Some(s) = t.as_str() {
                        if v.len() < 14 && !v.contains(&s.to_string()) {
                            v.push(s.to_string());
                        }
                    }
                }
            }
        }
    }
    v
}

fn gen_filter(rng: &mut Rng, w: &World) -> Filter {
    let h = w.height.unwrap_or(0);
    // heights are given as hex quantities or, in a fifth of the filters, as decimal strings (the API takes both)
    let decimal = rng.chance(1, 5);
    let hx = |n: u64| if decimal { n.to_string() } else { format!("0x{:x}", n) };
    let (from, to, from_n, to_n) = match rng.below(12) {
        0 => (None, None, h, h),
        1 => (Some("latest".to_string()), None, h, h),
        2 => {
            let a = rng.below(h + 1);
            (Some(hx(a)), None, a, a)
        }
        3 => {
            // reversed
            let a = rng.range(1, h.max(1));
            (Some(hx(a)), Some(hx(a.saturating_sub(rng.range(1, 3)))), a, a.saturating_sub(1))
        }
        4 => {
            // too wide (7 blocks)
            let a = rng.below(h + 1);
            (Some(hx(a)), Some(hx(a + 6)), a, a + 6)
        }
        5 => {
            // exactly the 6-block maximum
            let a = rng.below(h + 1);
            (Some(hx(a)), Some(hx(a + 5)), a, a + 5)
        }
        6 => {
            let a = h.saturating_sub(rng.below(4));
            (Some(hx(a)), Some("latest".to_string()), a, h)
        }
        _ => {
            let a = rng.below(h + 1);
            let b = a + rng.below(6);
            (Some(hx(a)), Some(hx(b)), a, b)
        }
    };
    let emitters: Vec<String> = {
        let mut v: Vec<String> = w.book.contracts.iter().map(|c| c.addr.clone()).collect();
        v.push(CONTROLLER.to_string());
        v.extend(w.book.tokens.values().cloned());
        v
    };
    let address = match rng.below(4) {
        0 | 1 => None,
        2 => Some(rng.pick(&emitters).clone()),
        _ => Some(if rng.chance(1, 2) { DEAD.to_string() } else { rng.pick(&emitters).clone() }),
    };
    let pool = topic_pool(w);
    let topics = if rng.chance(1, 3) {
        None
    } else {
        let n = rng.range(1, 4);
        Some(
            (0..n)
                .map(|_| match rng.below(5) {
                    0 | 1 => TopicF::Any,
                    2 | 3 => TopicF::One(rng.pick(&pool).clone()),
                    _ => {
                        let k = rng.range(1, 3);
                        TopicF::Alt((0..k).map(|_| rng.pick(&pool).clone()).collect())
                    }
                })
                .collect(),
        )
    };
    Filter { from, to, from_n, to_n, address, topics }
}

fn filter_json(f: &Filter) -> Value {
    let mut o = serde_json::Map::new();
    if let Some(x) = &f.from {
        o.insert("fromBlock".into(), json!(x));
    }
    if let Some(x) = &f.to {
        o.insert("toBlock".into(), json!(x));
    }
    if let Some(a) = &f.address {
        o.insert("address".into(), json!(a));
    }
    if let Some(ts) = &f.topics {
        let v: Vec<Value> = ts
            .iter()
            .map(|t| match t {
                TopicF::Any => Value::Null,
                TopicF::One(s) => json!(s),
                TopicF::Alt(v) => json!(v),
            })
            .collect();
        o.insert("topics".into(), Value::Array(v));
    }
    Value::Object(o)
}

/// the reference: evaluate the filter over the receipts the indexer was handed
fn reference(w: &World, f: &Filter) -> Vec<Value> {
    let mut out = vec![];
    for b in &w.chain {
        if b.height < f.from_n || b.height > f.to_n {
            continue;
        }
        for x in &b.receipts {
            for l in x["receipt"]["logs"].as_array().cloned().unwrap_or_default() {
                if let Some(a) = &f.address {
                    if l["address"].as_str().map(|s| s.to_lowercase()) != Some(a.to_lowercase()) {
                        continue;
                    }
                }
                let lt: Vec<String> = l["topics"].as_array().map(|a| a.iter().map(|t| t.as_str().unwrap_or("").to_string()).collect()).unwrap_or_default();
                let mut m = true;
                if let Some(ts) = &f.topics {
                    for (i, t) in ts.iter().enumerate() {
                        match t {
                            TopicF::Any => {}
                            TopicF::One(s) => {
                                if lt.get(i) != Some(s) {
                                    m = false;
                                }
                            }
                            TopicF::Alt(v) => {
                                if !lt.get(i).map(|x| v.contains(x)).unwrap_or(false) {
                                    m = false;
                                }
                            }
                        }
                    }
                }
                if m {
                    out.push(l);
                }
            }
        }
    }
    out
}

impl Prop for C18 {
    fn id(&self) -> &'static str {
        "C18"
    }
    fn runs(&self, tier: Tier) -> u64 {
        match tier {
            Tier::Quick => 800,
            Tier::Thorough => 8000,
        }
    }
    fn generate(&self, seed: u64, _tier: Tier) -> Value {
        let rng = Rng::new(seed);
        let p = profile(&mut rng.derive("profile"));
        let mut g = Gen::new(rng.derive("workload"), &p);
        let mut v = case_of(&g.scenario());
        v["filter_seed"] = json!(rng.derive("filters").next());
        v
    }
    fn rule(&self) -> String {
        "case = seeded history whose contracts emit 0-4-topic logs in multi-tx blocks, under a commit schedule {never, every block, every k, random} and a hash seed (so ranges are uncommitted, partly committed or committed), with reorgs; at every block boundary 4 seeded filters (address none/emitter/other; 1-4 topic positions wildcard/single/alternatives incl. positions beyond the log's topic count; ranges default, latest, single, <=6, exactly 6, reversed, 7) are evaluated by eth_getLogs and by a reference filter over the receipts the indexer was handed: same logs, each once, in (block, tx index, log index) order; 7-block ranges must be refused; a reversed range may answer an error or an empty list. distinct = sha256 of op list; non-trivial = some filter matched at least one log over a range containing an uncommitted block".into()
    }
    fn assumptions(&self) -> Vec<String> {
        vec!["not generated because the statement leaves them open: an empty alternatives list and null inside a list".into()]
    }
    fn execute(&self, case: &Value) -> RunOut {
        let sc = scenario_of(case);
        setup(&sc);
        let timer = Timer::start();
        let mut w = World::new(Instance::fresh_seeded("c18", sc.hash_seed), sc.config.clone());
        let mut frng = Rng::new(case["filter_seed"].as_u64().unwrap_or(3));
        let mut nontrivial = false;
        let mut violation: Option<Violation> = None;
        'ops: for (i, op) in sc.ops.iter().enumerate() {
            let rs = w.exec(i, op);
            if let Some(p) = any_panic(&rs) {
                violation = Some(Violation::new("panic-in-history", json!({"op": i, "kind": op.kind_name(), "panic": p})));
                break 'ops;
            }
            if w.open.is_some() || w.height.is_none() || !matches!(op, Op::Block { .. } | Op::Commit | Op::Reorg { .. } | Op::Mine { .. }) {
                continue;
            }
            for _ in 0..4 {
                let f = gen_filter(&mut frng, &w);
                let fj = filter_json(&f);
                let r = w.inst.call("eth_getLogs", json!([fj]));
                let reversed = f.to_n < f.from_n;
                let too_wide = !reversed && f.to_n - f.from_n > 5;
                match &r {
                    Resp::Panic(m) => {
                        violation = Some(Violation::new("panic-in-getLogs", json!({"op": i, "filter": fj, "panic": m})));
                        break 'ops;
                    }
                    Resp::Err { .. } => {
                        if too_wide {
                            w.stats.bump("probe_too_wide_refused");
                            continue;
                        }
                        if reversed {
                            w.stats.bump("probe_reversed_refused");
                            continue;
                        }
                        violation = Some(Violation::new("valid-filter-refused", json!({"op": i, "filter": fj, "resp": r.to_value()})));
                        break 'ops;
                    }
                    Resp::Ok(v) => {
                        if too_wide {
                            violation = Some(Violation::new("too-wide-range-accepted", json!({"op": i, "filter": fj, "logs": v.as_array().map(|a| a.len())})));
                            break 'ops;
                        }
                        let got = v.as_array().cloned().unwrap_or_default();
                        let want = if reversed { vec![] } else { reference(&w, &f) };
                        if got != want {
                            let same_set = {
                                let mut a: Vec<String> = got.iter().map(|x| x.to_string()).collect();
                                let mut b: Vec<String> = want.iter().map(|x| x.to_string()).collect();
                                a.sort();
                                b.sort();
                                a == b
                            };
                            let class = if same_set {
                                "logs-out-of-order"
                            } else if got.len() > want.len() {
                                "extra-or-duplicate-logs"
                            } else if got.len() < want.len() {
                                "missing-logs"
                            } else {
                                "wrong-logs"
                            };
                            let pos = |l: &Value| json!([l["blockNumber"], l["transactionIndex"], l["logIndex"], l["address"], l["topics"]]);
                            violation = Some(Violation::new(
                                class,
                                json!({"op": i, "filter": fj, "height": w.height, "committed": w.committed,
                                       "got(block,tx,log,addr,topics)": got.iter().take(8).map(pos).collect::<Vec<_>>(),
                                       "want": want.iter().take(8).map(pos).collect::<Vec<_>>(), "got_n": got.len(), "want_n": want.len()}),
                            ));
                            break 'ops;
                        }
                        w.stats.bump("filters_compared");
                        if !want.is_empty() {
                            w.stats.bump("probe_filter_matched_logs");
                            if w.committed.map_or(true, |c| f.to_n > c) {
                                nontrivial = true;
                                w.stats.bump("probe_matched_over_uncommitted_range");
                            }
                            if want.len() >= 2 {
                                w.stats.bump("probe_multi_log_result");
                            }
                        }
                    }
                }
            }
        }
        finish(&sc, &[&w], nontrivial, &timer, violation)
    }
}
