//! C11 - concurrent readers and the indexer can never deadlock the server.
use super::common::*;
use crate::framework::{sha_hex, Prop, RunOut, Tier, Violation};
use crate::gen::{CommitSched, Gen, Profile};
use crate::inst::{dispatch, Instance, Resp};
use crate::ops::*;
use crate::rng::Rng;
use crate::sched::Sched;
use crate::world::{pkscript, World, CONTROLLER, DEAD, ZERO_HASH};
use serde_json::{json, Value};
use std::sync::Arc;
use std::time::Duration;

pub struct C11;

fn profile() -> Profile {
    let mut p = Profile::default();
    p.blocks = (2, 8);
    p.txs = (1, 3);
    p.commit = CommitSched::Random(1, 3);
    p.p_mine = (1, 8);
    p.w_spin = 0;
    p
}

/// request pool: explorers and the indexer
fn requests(w: &mut World, rng: &mut Rng, k: usize) -> Vec<Value> {
    let h = w.height.unwrap_or(0);
    // signed transactions of signer 0 relative to its real nonce: the next one and its successor
    let s0 = crate::world::addr_str(&crate::world::signer(0).address());
    let n0 = match w.inst.call("eth_getTransactionCount", json!([s0, "latest"])) {
        Resp::Ok(v) => crate::world::hex_u64(&v).unwrap_or(0),
        _ => 0,
    };
    let raw_next = crate::world::hex0x(&w.sign_tx(0, n0, Some(crate::world::parse_addr(DEAD)), vec![1], true));
    let raw_ahead = crate::world::hex0x(&w.sign_tx(0, n0 + 1, Some(crate::world::parse_addr(DEAD)), vec![2], true));
    // one round in three: the successor is parked first (sequentially), so that a concurrent gap-filling
    // brc20_transact walks the pending-transaction loop while explorers queue for the write lock
    let parked = rng.chance(1, 3);
    if parked {
        let ts = 1_900_000_000u64;
        let _ = w.inst.call("brc20_transact", json!([raw_ahead, null, ts, ZERO_HASH, 0, "c11-parked", 2000, ZERO_HASH]));
        let _ = w.inst.call("brc20_finaliseBlock", json!([ts, ZERO_HASH, 0]));
        if rng.chance(1, 2) {
            let _ = w.inst.call("brc20_commitToDatabase", json!([]));
        }
        w.stats.bump("probe_round_with_parked_successor");
    }
    let hx = format!("0x{:x}", h);
    let bh = w.chain.last().map(|b| b.hash.clone()).unwrap_or_else(|| ZERO_HASH.to_string());
    let th = w.uni.tx_hashes.iter().next().cloned().unwrap_or_else(|| ZERO_HASH.to_string());
    let contract = w.book.contracts.first().map(|c| c.addr.clone()).unwrap_or_else(|| CONTROLLER.to_string());
    let ts = 1_900_000_000u64;
    let readers: Vec<(&str, Value)> = vec![
        ("eth_getBlockByHash", json!([bh, true])),
        ("eth_getBlockByHash", json!([bh, false])),
        ("eth_getBlockByNumber", json!([hx, true])),
        ("eth_blockNumber", json!([])),
        ("eth_getLogs", json!([{"fromBlock": format!("0x{:x}", h.saturating_sub(3)), "toBlock": hx}])),
        ("eth_call", json!([{"from": DEAD, "to": contract, "data": "0x0600000000000000000000000000000000000000000000000000000000000000000001"}])),
        ("eth_estimateGas", json!([{"from": DEAD, "to": contract, "data": "0x0c01"}])),
        ("brc20_balance", json!([pkscript(0), "ordi"])),
        ("txpool_content", json!([])),
        ("txpool_contentFrom", json!([contract])),
        ("debug_getRawBlock", json!([format!("\"{bh}\"")])),
        ("debug_getRawHeader", json!([hx])),
        ("debug_getRawReceipts", json!([format!("\"{bh}\"")])),
        ("eth_getTransactionReceipt", json!([th])),
        ("eth_getTransactionByHash", json!([th])),
        ("eth_getTransactionByBlockHashAndIndex", json!([bh, 0])),
        ("eth_getBlockTransactionCountByHash", json!([bh])),
        ("eth_getTransactionCount", json!([contract, "latest"])),
        ("eth_getCode", json!([contract])),
        ("eth_getStorageAt", json!([contract, "0x1"])),
        ("debug_getBlockTraceString", json!([hx])),
        ("brc20_getTxReceiptByInscriptionId", json!(["BRC20_CONTROLLER_INIT"])),
        ("brc20_getInscriptionIdByContractAddress", json!([contract])),
        ("eth_chainId", json!([])),
    ];
    let writers: Vec<(&str, Value)> = vec![
        ("brc20_deposit", json!([pkscript(1), "ordi", "0x5", ts, ZERO_HASH, 0, "c11-dep"])),
        ("brc20_call", json!([pkscript(2), contract, null, "0x01010000000000000000000000000000000000000000000000000000000000000001000000000000000000000000000000000000000000000000000000000000000007", null, ts, ZERO_HASH, 0, "c11-call", 2000, ZERO_HASH])),
        ("brc20_deploy", json!([pkscript(3), "0x5f5ff3", null, ts, ZERO_HASH, 0, "c11-deploy", 2000, ZERO_HASH])),
        ("brc20_finaliseBlock", json!([ts, ZERO_HASH, 0])),
        ("brc20_mine", json!([1, ts])),
        ("brc20_commitToDatabase", json!([])),
        ("brc20_clearCaches", json!([])),
        ("brc20_clearCaches", json!([])),
        ("brc20_reorg", json!([h.saturating_sub(1)])),
        ("brc20_reorg", json!([h])),
        ("brc20_transact", json!(["0xc0", null, ts, ZERO_HASH, 0, "c11-tx", 2000, ZERO_HASH])),
        ("brc20_transact", json!([raw_next, null, ts, ZERO_HASH, 0, "c11-tx-next", 2000, ZERO_HASH])),
        ("brc20_transact", json!([raw_ahead, null, ts, ZERO_HASH, 0, "c11-tx-ahead", 2000, ZERO_HASH])),
    ];
    let gap_filler = writers[writers.len() - 2].clone();
    let mut out = vec![];
    // at least one writer in most scenarios, several readers, sometimes two writers (misbehaving indexer)
    for i in 0..k {
        // thread 0 is usually an indexer call, thread 1 often one too (clearCaches / commit / reorg racing with a
        // transaction call is part of the statement), the rest mostly explorers
        if parked && i == 0 {
            out.push(json!({"jsonrpc": "2.0", "id": 1, "method": gap_filler.0, "params": gap_filler.1}));
            continue;
        }
        let (m, p) = if (i == 0 && rng.chance(5, 6)) || (i == 1 && rng.chance(1, 2)) || rng.chance(1, 5) { rng.pick(&writers).clone() } else { rng.pick(&readers).clone() };
        out.push(json!({"jsonrpc": "2.0", "id": i + 1, "method": m, "params": p}));
    }
    out
}

/// liveness afterwards (uncontrolled): the write path still works; bookkeeping follows what the probe did
fn after_round(w: &mut World, round: u64, req_names: &[String], choices: &[usize]) -> Option<Violation> {
    for (m, p) in [("brc20_clearCaches", json!([])), ("eth_blockNumber", json!([])), ("brc20_mine", json!([1, 1_950_000_000u64 + round]))] {
        let r = w.inst.call(m, p);
        if !r.is_ok() {
            return Some(Violation::new(format!("not-live-after-concurrency/{m}"), json!({"round": round, "requests": req_names, "resp": r.to_value(), "schedule": choices})));
        }
    }
    w.open = None;
    if let Resp::Ok(v) = w.inst.call("eth_blockNumber", json!([])) {
        w.height = crate::world::hex_u64(&v);
    }
    let hh = w.height.unwrap_or(0);
    if let Resp::Ok(b) = w.inst.call("eth_getBlockByNumber", json!([format!("0x{:x}", hh), false])) {
        if let Some(hs) = b["hash"].as_str() {
            w.chain.push(crate::world::BlockRec { height: hh, hash: hs.to_string(), ts: 0, calls: vec![], receipts: vec![], txs: vec![] });
        }
    }
    None
}

impl Prop for C11 {
    fn id(&self) -> &'static str {
        "C11"
    }
    fn runs(&self, tier: Tier) -> u64 {
        match tier {
            Tier::Quick => 2560,
            Tier::Thorough => 12000,
        }
    }
    fn hang_timeout_s(&self) -> u64 {
        90
    }
    fn lost_run_is_violation(&self) -> bool {
        true
    }
    fn generate(&self, seed: u64, _tier: Tier) -> Value {
        let rng = Rng::new(seed);
        let p = profile();
        let mut g = Gen::new(rng.derive("workload"), &p);
        let sc = g.scenario();
        let mut v = case_of(&sc);
        let mut r = rng.derive("conc");
        v["threads"] = json!(r.range(2, 4));
        v["request_seed"] = json!(r.next());
        v["schedule_seed"] = json!(r.next());
        // several schedules of the same request set per run
        v["schedules"] = json!(6);
        v
    }
    fn shrink(&self, case: &Value) -> Vec<Value> {
        // fewer preparation ops; the schedule itself is pinned by refine_case
        crate::framework::shrink_ops(case)
    }
    fn refine_case(&self, case: &Value, v: &Violation) -> Value {
        let mut c = case.clone();
        if let Some(s) = v.detail.get("schedule") {
            c["schedule"] = s.clone();
            c["schedules"] = json!(1);
        }
        if let Some(r) = v.detail.get("round") {
            c["only_round"] = r.clone();
        }
        c
    }
    fn rule(&self) -> String {
        "case = seeded preparation history, then a set of 2-4 concurrent requests (explorer reads incl. eth_getBlockByHash / debug_getRaw*(hash) / eth_call / eth_getLogs / txpool_*, and indexer writes deposit / call / deploy / finalise / mine / commit / clearCaches / reorg / transact with undecodable, next-nonce and future-nonce signed transactions; in one round of three a successor nonce is parked beforehand so that the concurrent next-nonce transaction drains the pending pool) executed by real threads on the shared engine. Every SharedData acquire and release (engine database lock, block-under-construction lock, CONFIG) is a scheduling point at which exactly one thread is released, chosen by the seed (6 request sets with one seeded schedule each per run, alternating between a uniform choice at every event and PCT-style random priorities with 1-3 priority change points); the admission rule is std's writer-preferring RwLock (reader admitted iff no writer holds and none is queued; writer iff nobody holds), and the real try_read/try_write must then succeed. Violation = a state in which no thread is admissible although not all have finished (reported with the wait-for description and the schedule that reaches it), a request that never completes, or a failed liveness probe afterwards. distinct = sha256 of (ops, request set); states = distinct schedules (hash of the decision sequence); non-trivial = at least one writer and one reader were interleaved (>= 6 scheduling decisions)".into()
    }
    fn assumptions(&self) -> Vec<String> {
        vec![
            "models the application locks (SharedData); RocksDB's and tokio's internal synchronisation is real but never contended because one simulated thread runs at a time".into(),
            "the 5 s wait for an open block collapses to an immediate timeout under the paused clock; no lock is held while waiting".into(),
        ]
    }
    fn components(&self) -> Value {
        json!({"real": ["RPC handlers", "engine", "std RwLock (admission decided by the simulator first, then try_read/try_write must succeed)", "RocksDB", "revm"],
               "stub": ["OS scheduler (replaced by the seeded lock-seam scheduler)", "Bitcoin node", "HTTP transport"]})
    }
    fn execute(&self, case: &Value) -> RunOut {
        let sc = scenario_of(case);
        setup(&sc);
        let timer = Timer::start();
        let mut w = World::new(Instance::fresh_seeded("c11", sc.hash_seed), sc.config.clone());
        let mut violation: Option<Violation> = None;
        for (i, op) in sc.ops.iter().enumerate() {
            let rs = w.exec(i, op);
            if let Some(p) = any_panic(&rs) {
                violation = Some(Violation::new("panic-in-preparation", json!({"op": i, "panic": p})));
                break;
            }
        }
        let k = case["threads"].as_u64().unwrap_or(3) as usize;
        let mut rrng = Rng::new(case["request_seed"].as_u64().unwrap_or(1));
        let rounds = case["schedules"].as_u64().unwrap_or(4);
        let only_round = case.get("only_round").and_then(|v| v.as_u64());
        let pinned: Option<Vec<usize>> = case.get("schedule").and_then(|s| s.as_array()).map(|a| a.iter().map(|x| x.as_u64().unwrap_or(0) as usize).collect());
        let mut states = vec![];
        let mut nontrivial = false;
        let mut req_digest = String::new();
        if violation.is_none() {
            for round in 0..rounds {
                let reqs = requests(&mut w, &mut rrng, k);
                req_digest.push_str(&serde_json::to_string(&reqs).unwrap_or_default());
                if only_round.map_or(false, |r| r != round) {
                    // a replay pinned to one round: the other rounds keep their sequential parts only
                    let _ = after_round(&mut w, round, &[], &[]);
                    continue;
                }
                let Some(methods) = w.inst.methods_clone() else { break };
                let seed = case["schedule_seed"].as_u64().unwrap_or(1) ^ (round.wrapping_mul(0x9E37_79B9));
                // odd rounds use PCT-style priorities with 1-3 change points, even rounds a uniform choice
                let pct = if round % 2 == 1 { Some(1 + round % 3) } else { None };
                let sched = Arc::new(Sched::new(k, seed, pinned.clone(), pct));
                brc20_prog::verif::sync::set_scheduler(Some(sched.clone()));
                let mut handles = vec![];
                let hash_seed = sc.hash_seed;
                for (t, req) in reqs.iter().enumerate() {
                    let sched = sched.clone();
                    let methods = methods.clone();
                    let req = req.to_string();
                    handles.push(std::thread::spawn(move || {
                        brc20_prog::verif::simhash::set_seed(hash_seed);
                        brc20_prog::verif::sync::set_thread_controlled(true);
                        sched.enter(t);
                        struct Fin(Arc<Sched>, usize);
                        impl Drop for Fin {
                            fn drop(&mut self) {
                                brc20_prog::verif::sync::set_thread_controlled(false);
                                self.0.finish(self.1);
                            }
                        }
                        let _fin = Fin(sched.clone(), t);
                        dispatch(&methods, &req)
                    }));
                }
                let outcome = sched.run(Duration::from_secs(60));
                brc20_prog::verif::sync::set_scheduler(None);
                let (deadlock, choices, steps, queued, pairs) = {
                    let g = sched.st.lock().unwrap_or_else(|e| e.into_inner());
                    (g.deadlock.clone(), g.choices.clone(), g.steps, g.probe_writer_queued_between, g.held_pairs.len())
                };
                w.stats.add("schedule_decisions", steps);
                w.stats.add("probe_writer_queued_between_two_acquisitions", queued);
                w.stats.add("held_to_requested_site_pairs", pairs as u64);
                states.push(sha_hex(&format!("{:?}{}", choices, reqs.len()))[..16].to_string());
                let req_names: Vec<String> = reqs.iter().map(|r| r["method"].as_str().unwrap_or("").to_string()).collect();
                if let Some(d) = deadlock {
                    // the culprit: a thread that waits for a lock it already holds (recursive acquisition),
                    // otherwise the sorted set of waiting sites
                    let mut sites: Vec<String> = vec![];
                    for x in d["waits"].as_array().cloned().unwrap_or_default() {
                        let t = x["thread"].as_u64().unwrap_or(99);
                        let holds = x["held_by_readers"].as_array().map(|a| a.iter().any(|r| r.as_u64() == Some(t))).unwrap_or(false) || x["held_by_writer"].as_u64() == Some(t);
                        if holds {
                            let held = x["holders_acquired_at"][t.to_string()].as_array().and_then(|a| a.last().cloned()).unwrap_or(json!("?"));
                            sites.push(format!("recursive:{}->{}", held.as_str().unwrap_or("?"), x["at"].as_str().unwrap_or("")));
                        }
                    }
                    if sites.is_empty() {
                        sites = d["waits"].as_array().map(|a| a.iter().map(|x| format!("{}:{}", x["wants"].as_str().unwrap_or(""), x["at"].as_str().unwrap_or(""))).collect()).unwrap_or_default();
                    }
                    sites.sort();
                    sites.dedup();
                    violation = Some(Violation::new(
                        format!("deadlock/{}", sites.join("+")),
                        json!({"round": round, "requests": req_names, "wait_for": d, "schedule": choices}),
                    ));
                    // the stuck threads stay parked; their engine is leaked with them
                    std::mem::forget(handles);
                    break;
                }
                if let Err(e) = outcome {
                    violation = Some(Violation::new("request-never-completes", json!({"round": round, "requests": req_names, "error": e, "schedule": choices})));
                    std::mem::forget(handles);
                    break;
                }
                let mut resps = vec![];
                for h in handles {
                    match h.join() {
                        Ok(r) => resps.push(r),
                        Err(_) => resps.push(Resp::Panic("thread panicked".into())),
                    }
                }
                if let Some(p) = resps.iter().find_map(|r| if let Resp::Panic(m) = r { Some(m.clone()) } else { None }) {
                    if !p.contains("Bitcoin RPC") {
                        // two indexer-side calls racing with each other is a client misbehaving; one writer among
                        // explorers is the normal deployment
                        let idx_calls = req_names.iter().filter(|m| m.starts_with("brc20_") && *m != "brc20_balance" && !m.starts_with("brc20_get")).count();
                        let class = if idx_calls >= 2 { "panic-in-concurrent-request/racing-indexer-calls" } else { "panic-in-concurrent-request/single-writer" };
                        violation = Some(Violation::new(class, json!({"round": round, "requests": req_names, "panic": p, "schedule": choices})));
                        break;
                    }
                }
                let writers = req_names.iter().filter(|m| m.starts_with("brc20_") && *m != "brc20_balance").count();
                if writers >= 1 && writers < req_names.len() && steps >= 6 {
                    nontrivial = true;
                }
                if let Some(v) = after_round(&mut w, round, &req_names, &choices) {
                    violation = Some(v);
                    break;
                }
            }
        }
        let mut out = finish(&sc, &[&w], nontrivial, &timer, violation);
        out.digest = sha_hex(&format!("{}{}", out.digest, req_digest));
        out.transcript = sha_hex(&format!("{}{:?}", out.transcript, states));
        out.states = states;
        out
    }
}
