//! C17 - eth_call predicts what the same transaction will do.
use super::common::*;
use crate::framework::{Prop, RunOut, Tier, Violation};
use crate::gen::{CommitSched, Gen, Profile};
use crate::inst::{Instance, Resp};
use crate::ops::*;
use crate::rng::Rng;
use crate::world::{addr_str, hex_u64, pk_addr, World, BASE_TS, N_PK};
use serde_json::{json, Value};

pub struct C17;

fn profile() -> Profile {
    let mut p = Profile::default();
    p.blocks = (2, 12);
    p.txs = (1, 3);
    p.commit = CommitSched::Random(1, 3);
    p.p_reorg = (1, 8);
    p.p_mine = (1, 12);
    p.w_spin = 0;
    p.w_probe = 0;
    p.w_tx = [4, 8, 2, 3, 1];
    p
}

/// the statement excludes code that reads the current Bitcoin transaction id (precompile 0xfa), time or
/// randomness (the Probe contract)
fn excluded(t: &Target, d: &Cd) -> bool {
    if matches!(t, Target::Precompile(0xfa)) || matches!(d, Cd::Probe(_)) {
        return true;
    }
    match d {
        Cd::CallOther { target, inner, .. } => excluded(target, inner),
        Cd::Multi(v) => v.iter().any(|c| excluded(&Target::Dead, c)),
        _ => false,
    }
}

impl Prop for C17 {
    fn id(&self) -> &'static str {
        "C17"
    }
    fn runs(&self, tier: Tier) -> u64 {
        match tier {
            Tier::Quick => 960,
            Tier::Thorough => 10000,
        }
    }
    fn generate(&self, seed: u64, _tier: Tier) -> Value {
        let rng = Rng::new(seed);
        let p = profile();
        let mut g = Gen::new(rng.derive("workload"), &p);
        let mut sc = g.scenario();
        sc.config.traces = true;
        // sometimes the chain is still empty when the predictions start
        if rng.derive("empty").chance(1, 10) {
            sc.ops.clear();
        }
        let mut v = case_of(&sc);
        v["probe_seed"] = json!(rng.derive("probes").next());
        v["probes"] = json!(rng.derive("n").range(4, 12));
        v
    }
    fn rule(&self) -> String {
        "case = seeded history reaching an arbitrary chain state (commits, reorgs, ERC traffic, signed txs), then 4-12 probes at block boundaries: eth_call{from,to,data} (or a creation) immediately followed on the same instance by brc20_call / brc20_deploy with the same sender, target and data and an allowance equal to the configured call gas limit. Success flag and return data (debug_traceTransaction output / revert data) must be equal; a simulated creation must return exactly the code eth_getCode serves for the deployed address (also when the address was created in an orphaned block and touched since); calls read NUMBER, BLOCKHASH, CHAINID, GASLIMIT, COINBASE, BASEFEE, GASPRICE, ORIGIN, CALLER, SELFBALANCE, BLOBBASEFEE; programs cover storage, logs, reverts, invalid, nested CALL/STATICCALL/DELEGATECALL, CREATE/CREATE2 children (nonce-derived addresses), controller and token calls, precompiles; the Probe contract (timestamp, randomness, txid) is excluded. distinct = sha256 of (ops, probe seed); non-trivial = at least one successful and one failing prediction and one creation were compared".into()
    }
    fn execute(&self, case: &Value) -> RunOut {
        let sc = scenario_of(case);
        setup(&sc);
        let timer = Timer::start();
        let mut w = World::new(Instance::fresh_seeded("c17", sc.hash_seed), sc.config.clone());
        let mut violation: Option<Violation> = None;
        for (i, op) in sc.ops.iter().enumerate() {
            let rs = w.exec(i, op);
            if let Some(p) = any_panic(&rs) {
                violation = Some(Violation::new("panic-in-history", json!({"op": i, "panic": p})));
                break;
            }
        }
        if w.open.is_some() {
            w.exec(sc.ops.len(), &Op::ClearCaches);
        }
        let p = profile();
        let mut g = Gen::new(Rng::new(case["probe_seed"].as_u64().unwrap_or(1)), &p);
        let n = case["probes"].as_u64().unwrap_or(6);
        let (mut saw_ok, mut saw_fail, mut saw_create) = (false, false, false);
        let mut id = 8_000_000u32;
        let base = sc.ops.len();
        if violation.is_none() {
            'probes: for k in 0..n {
                id += 1;
                let sender = g.rng.below(N_PK as u64) as u8;
                let ts = BASE_TS + 2_000_000 + id as u64;
                w.op_index = base + 1 + k as usize;
                // a prediction made before a reorg must not be served after it: ask, roll back, then probe as usual
                if g.rng.chance(1, 5) && w.height.map_or(false, |h| h >= 2) {
                    let (t0, d0) = loop {
                        let (t, d) = g.call_pair();
                        if !excluded(&t, &d) {
                            break (t, d);
                        }
                    };
                    let c0 = w.eth_call_obj(&Who::Pk(sender), &Some(t0.clone()), &d0, &None);
                    let _ = w.inst.call("eth_call", json!([c0]));
                    let back = g.rng.range(1, 2);
                    let target = w.height.unwrap_or(0).saturating_sub(back);
                    let r = w.reorg_to(target);
                    if r.is_ok() {
                        w.stats.bump("probe_prediction_across_reorg");
                    }
                    // the same question again, now followed by the transaction
                    id += 1;
                    let predicted = w.inst.call("eth_call", json!([w.eth_call_obj(&Who::Pk(sender), &Some(t0.clone()), &d0, &None)]));
                    let tx = Tx { id, kind: TxKind::Call { sender, target: t0, by_inscription: false, data: d0 }, len: LenPolicy::Generous, enc: Enc::Hex };
                    let r = w.exec_tx(ts, &HashMode::Zero, &tx);
                    let _ = w.finalise(ts, &HashMode::Zero);
                    if let (Resp::Ok(rc), true) = (&r, !predicted.is_panic()) {
                        let real_ok = hex_u64(&rc["status"]) == Some(1);
                        let th = rc["transactionHash"].as_str().unwrap_or("").to_string();
                        let real_out = w.inst.call("debug_traceTransaction", json!([th])).ok().and_then(|t| t["output"].as_str().map(|s| s.to_lowercase()));
                        let (pred_ok, pred_out) = match &predicted {
                            Resp::Ok(v) => (true, v.as_str().map(|s| s.to_lowercase())),
                            Resp::Err { data, .. } => (false, data.as_ref().and_then(|d| d.as_str()).map(|s| s.to_lowercase())),
                            Resp::Panic(_) => (false, None),
                        };
                        if pred_ok != real_ok || (real_out.is_some() && pred_out.is_some() && real_out != pred_out) {
                            violation = Some(Violation::new(
                                "prediction-after-reorg-differs",
                                json!({"probe": k, "reorg_to": target, "tx": trunc(&serde_json::to_value(&tx.kind).unwrap()), "eth_call": trunc(&predicted.to_value()), "receipt_status": rc["status"], "transaction_output": real_out}),
                            ));
                            break 'probes;
                        }
                    }
                    continue;
                }
                // a deployment that lands on an address with history: deploy, orphan the block, let somebody touch the
                // now empty address, deploy again with the same sender nonce (same address)
                if g.rng.chance(1, 8) && w.height.map_or(false, |h| h >= 1) {
                    let prog = DeployProg::NumberCode;
                    let first = Tx { id, kind: TxKind::Deploy { sender, prog: prog.clone() }, len: LenPolicy::Generous, enc: Enc::Hex };
                    let r1 = w.exec_tx(ts, &HashMode::Zero, &first);
                    let _ = w.finalise(ts, &HashMode::Zero);
                    let addr1 = r1.ok().and_then(|rc| rc["contractAddress"].as_str().map(|s| s.to_string()));
                    let target = w.height.unwrap_or(1).saturating_sub(1);
                    let rr = w.reorg_to(target);
                    if let (Some(addr1), true) = (addr1, rr.is_ok()) {
                        id += 1;
                        let toucher = Tx { id, kind: TxKind::Call { sender: (sender + 1) % N_PK, target: Target::Addr(addr1.clone()), by_inscription: false, data: Cd::Sload(1) }, len: LenPolicy::Generous, enc: Enc::Hex };
                        let _ = w.exec_tx(ts + 1, &HashMode::Zero, &toucher);
                        let _ = w.finalise(ts + 1, &HashMode::Zero);
                        id += 1;
                        let predicted = w.inst.call("eth_call", json!([w.eth_call_obj(&Who::Pk(sender), &None, &Cd::Empty, &Some(prog.clone()))]));
                        let again = Tx { id, kind: TxKind::Deploy { sender, prog }, len: LenPolicy::Generous, enc: Enc::Hex };
                        let r2 = w.exec_tx(ts + 2, &HashMode::Zero, &again);
                        let _ = w.finalise(ts + 2, &HashMode::Zero);
                        if let Resp::Ok(rc) = &r2 {
                            let addr2 = rc["contractAddress"].as_str().unwrap_or("").to_string();
                            let real_ok = hex_u64(&rc["status"]) == Some(1);
                            let code = w.inst.call("eth_getCode", json!([addr2])).ok().and_then(|c| c.as_str().map(|s| s.to_lowercase()));
                            let pred_out = predicted.clone().ok().and_then(|v| v.as_str().map(|s| s.to_lowercase()));
                            w.stats.bump(if addr2 == addr1 { "probe_redeploy_at_touched_address" } else { "probe_redeploy_elsewhere" });
                            if predicted.is_ok() != real_ok || (real_ok && code != pred_out) {
                                violation = Some(Violation::new(
                                    "simulated-creation-code-differs/redeploy-after-reorg",
                                    json!({"probe": k, "address_first": addr1, "address_again": addr2, "eth_call": pred_out, "eth_getCode": code, "receipt_status": rc["status"]}),
                                ));
                                break 'probes;
                            }
                        }
                    }
                    continue;
                }
                // a contract addressed by the inscription id of its deployment: deploy under id X, call it by X, orphan the
                // deployment, let the sender's nonce move, deploy again under the same id X (another address now), and call by X
                if g.rng.chance(1, 10) && w.height.map_or(false, |h| h >= 1) {
                    let x = id;
                    let first = Tx { id: x, kind: TxKind::Deploy { sender, prog: DeployProg::Store }, len: LenPolicy::Generous, enc: Enc::Hex };
                    let r1 = w.exec_tx(ts, &HashMode::Zero, &first);
                    let addr1 = r1.ok().and_then(|rc| rc["contractAddress"].as_str().map(|s| s.to_string()));
                    if let Some(a1) = &addr1 {
                        id += 1;
                        let by_x = Tx { id, kind: TxKind::Call { sender: (sender + 1) % N_PK, target: Target::Addr(a1.clone()), by_inscription: true, data: Cd::BlockInfo }, len: LenPolicy::Generous, enc: Enc::Hex };
                        let _ = w.exec_tx(ts, &HashMode::Zero, &by_x);
                    }
                    let _ = w.finalise(ts, &HashMode::Zero);
                    let target = w.height.unwrap_or(1).saturating_sub(1);
                    let rr = w.reorg_to(target);
                    if let (Some(addr1), true) = (addr1, rr.is_ok()) {
                        id += 1;
                        // the sender's nonce moves, so the same inscription creates the contract somewhere else
                        let bump = Tx { id, kind: TxKind::Call { sender, target: Target::Dead, by_inscription: false, data: Cd::Empty }, len: LenPolicy::Generous, enc: Enc::Hex };
                        let _ = w.exec_tx(ts + 1, &HashMode::Zero, &bump);
                        let again = Tx { id: x, kind: TxKind::Deploy { sender, prog: DeployProg::Store }, len: LenPolicy::Generous, enc: Enc::Hex };
                        let r2 = w.exec_tx(ts + 1, &HashMode::Zero, &again);
                        let _ = w.finalise(ts + 1, &HashMode::Zero);
                        let addr2 = r2.ok().and_then(|rc| rc["contractAddress"].as_str().map(|s| s.to_string()));
                        if let Some(addr2) = addr2 {
                            id += 1;
                            let asker = (sender + 2) % N_PK;
                            let predicted = w.inst.call("eth_call", json!([w.eth_call_obj(&Who::Pk(asker), &Some(Target::Addr(addr2.clone())), &Cd::BlockInfo, &None)]));
                            let tx = Tx { id, kind: TxKind::Call { sender: asker, target: Target::Addr(addr2.clone()), by_inscription: true, data: Cd::BlockInfo }, len: LenPolicy::Generous, enc: Enc::Hex };
                            let r3 = w.exec_tx(ts + 2, &HashMode::Zero, &tx);
                            let _ = w.finalise(ts + 2, &HashMode::Zero);
                            if let Resp::Ok(rc) = &r3 {
                                let th = rc["transactionHash"].as_str().unwrap_or("").to_string();
                                let real_out = w.inst.call("debug_traceTransaction", json!([th])).ok().and_then(|t| t["output"].as_str().map(|s| s.to_lowercase()));
                                let pred_out = predicted.clone().ok().and_then(|v| v.as_str().map(|s| s.to_lowercase()));
                                w.stats.bump(if addr2 != addr1 { "probe_call_by_inscription_id_after_redeploy_elsewhere" } else { "probe_call_by_inscription_id_after_redeploy" });
                                if predicted.is_ok() != (hex_u64(&rc["status"]) == Some(1)) || (real_out.is_some() && pred_out.is_some() && real_out != pred_out) || rc["to"].as_str().map(|s| s.to_lowercase()) != Some(addr2.to_lowercase()) {
                                    violation = Some(Violation::new(
                                        "call-by-inscription-id-differs-from-eth_call",
                                        json!({"probe": k, "address_first": addr1, "address_again": addr2, "eth_call": pred_out, "transaction_output": real_out, "receipt_to": rc["to"], "receipt_status": rc["status"]}),
                                    ));
                                    break 'probes;
                                }
                            }
                        }
                    }
                    continue;
                }
                let creation = g.rng.chance(1, 5) || w.book.contracts.is_empty();
                let (call, tx) = if creation {
                    let prog = if g.rng.chance(1, 3) { DeployProg::NumberCode } else { g.deploy_prog() };
                    if matches!(prog, DeployProg::Empty) {
                        continue;
                    }
                    (
                        w.eth_call_obj(&Who::Pk(sender), &None, &Cd::Empty, &Some(prog.clone())),
                        Tx { id, kind: TxKind::Deploy { sender, prog }, len: LenPolicy::Generous, enc: Enc::Hex },
                    )
                } else {
                    let (target, data) = loop {
                        let (t, d) = g.call_pair();
                        if !excluded(&t, &d) {
                            break (t, d);
                        }
                    };
                    // block number / previous block hash / chain id are context a prediction may depend on
                    let (target, data) = if g.rng.chance(1, 6) { (Target::Contract(g.rng.below(4) as u8), Cd::BlockInfo) } else { (target, data) };
                    // targets without code of their own: the zero address (which is not "no target"), a precompile, the
                    // sender itself - with empty and non-trivial call data
                    let (target, data) = if g.rng.chance(1, 10) {
                        let t = match g.rng.below(4) {
                            0 | 1 => Target::Addr("0x0000000000000000000000000000000000000000".into()),
                            2 => Target::Precompile(*g.rng.pick(&[1u8, 2, 4, 9])),
                            _ => Target::Addr(addr_str(&pk_addr(sender))),
                        };
                        let d = if g.rng.chance(1, 3) { Cd::Empty } else if g.rng.chance(1, 2) { Cd::Raw(hex::encode(crate::programs::number_initcode())) } else { data };
                        w.stats.bump("probe_target_without_code");
                        (t, d)
                    } else {
                        (target, data)
                    };
                    // a fifth of the calls are made by a signer account through a signed transaction (next nonce; the gas
                    // limit and value fields of the payload vary with its content and must not matter)
                    // (not to the zero address: in a signed payload that spells a creation, `from_raw_transaction`)
                    let zero_target = matches!(&target, Target::Addr(a) if a.trim_start_matches("0x").chars().all(|c| c == '0'));
                    if g.rng.chance(1, 5) && !zero_target {
                        let sg = g.rng.below(crate::world::N_SIGNERS as u64) as u8;
                        w.stats.bump("probe_signed_transaction_probe");
                        (
                            w.eth_call_obj(&Who::Signer(sg), &Some(target.clone()), &data, &None),
                            Tx { id, kind: TxKind::Transact { signer: sg, nonce: NonceSpec::Rel(0), to: Some(target), data, deploy: None, chain_ok: true }, len: LenPolicy::Generous, enc: Enc::Hex },
                        )
                    } else {
                        (
                            w.eth_call_obj(&Who::Pk(sender), &Some(target.clone()), &data, &None),
                            Tx { id, kind: TxKind::Call { sender, target, by_inscription: false, data }, len: LenPolicy::Generous, enc: Enc::Hex },
                        )
                    }
                };
                let predicted = w.inst.call("eth_call", json!([call]));
                if let Resp::Panic(pm) = &predicted {
                    violation = Some(Violation::new("panic-in-eth_call", json!({"probe": k, "panic": pm})));
                    break 'probes;
                }
                let r = w.exec_tx(ts, &HashMode::Zero, &tx);
                let receipt = match &r {
                    // a signed transaction answers with the receipts it produced; with a drained successor or none at all
                    // (stale bookkeeping of the nonce) the comparison is skipped
                    Resp::Ok(Value::Array(a)) => match a.first() {
                        Some(x) if a.len() == 1 => x.clone(),
                        _ => {
                            let _ = w.finalise(ts, &HashMode::Zero);
                            w.stats.bump("signed_probe_not_compared");
                            continue;
                        }
                    },
                    Resp::Ok(v) => v.clone(),
                    other => {
                        violation = Some(Violation::new("probe-tx-rejected", json!({"probe": k, "resp": other.to_value()})));
                        break 'probes;
                    }
                };
                let fin = w.finalise(ts, &HashMode::Zero);
                if !fin.is_ok() {
                    violation = Some(Violation::new("probe-finalise-rejected", json!({"probe": k, "resp": fin.to_value()})));
                    break 'probes;
                }
                let real_ok = hex_u64(&receipt["status"]) == Some(1);
                let th = receipt["transactionHash"].as_str().unwrap_or("").to_string();
                let trace = w.inst.call("debug_traceTransaction", json!([th]));
                let real_out = trace.ok().and_then(|t| t["output"].as_str().map(|s| s.to_lowercase()));
                let (pred_ok, pred_out) = match &predicted {
                    Resp::Ok(v) => (true, v.as_str().map(|s| s.to_lowercase())),
                    Resp::Err { data, .. } => (false, data.as_ref().and_then(|d| d.as_str()).map(|s| s.to_lowercase())),
                    Resp::Panic(_) => (false, None),
                };
                let what = json!({"probe": k, "tx": trunc(&serde_json::to_value(&tx.kind).unwrap()), "eth_call": trunc(&predicted.to_value()), "receipt_status": receipt["status"], "transaction_output": real_out.as_ref().map(|s| trunc(&json!(s)))});
                if pred_ok != real_ok {
                    violation = Some(Violation::new("success-flag-differs", what));
                    break 'probes;
                }
                if creation && real_ok {
                    let addr = receipt["contractAddress"].as_str().unwrap_or("").to_string();
                    let code = w.inst.call("eth_getCode", json!([addr]));
                    let code = code.ok().and_then(|c| c.as_str().map(|s| s.to_lowercase()));
                    if code != pred_out {
                        violation = Some(Violation::new("simulated-creation-code-differs", json!({"probe": k, "eth_call": pred_out.as_ref().map(|s| trunc(&json!(s))), "eth_getCode": code.as_ref().map(|s| trunc(&json!(s))), "address": addr})));
                        break 'probes;
                    }
                    saw_create = true;
                    w.stats.bump("probe_creation_compared");
                } else if real_out.is_some() && pred_out.is_some() && real_out != pred_out {
                    violation = Some(Violation::new("return-data-differs", what));
                    break 'probes;
                }
                if real_ok {
                    saw_ok = true;
                    w.stats.bump("probe_success_predicted");
                } else {
                    saw_fail = true;
                    w.stats.bump("probe_failure_predicted");
                }
            }
        }
        let mut out = finish(&sc, &[&w], saw_ok && saw_fail && saw_create, &timer, violation);
        out.digest = crate::framework::sha_hex(&format!("{}{}", out.digest, case["probe_seed"]));
        out
    }
}
