//! helpers shared by the World-based properties
#![allow(dead_code)]
use crate::framework::{sha_hex, RunOut, Violation};
use crate::inst::{apply_config, sim_now_ms, Instance, Resp};
use crate::obs::{self, Depth, Obs};
use crate::ops::*;
use crate::world::{BlockRec, CallRec, Universe, World};
use serde_json::{json, Value};

pub fn scenario_of(case: &Value) -> Scenario {
    serde_json::from_value(case.clone()).expect("case is a Scenario")
}
pub fn case_of(sc: &Scenario) -> Value {
    serde_json::to_value(sc).expect("serialise scenario")
}

pub fn setup(sc: &Scenario) {
    apply_config(&sc.config);
    brc20_prog::verif::simhash::set_seed(sc.hash_seed);
    brc20_prog::verif::set_failpoint(None);
}

pub fn transcript_digest(logs: &[&[CallRec]]) -> String {
    use sha2::{Digest, Sha256};
    let mut h = Sha256::new();
    for log in logs {
        for c in log.iter() {
            h.update(c.call.method.as_bytes());
            h.update(c.call.params.to_string().as_bytes());
            h.update(c.resp.to_value().to_string().as_bytes());
        }
        h.update(b"|");
    }
    hex::encode(h.finalize())
}

pub fn ops_digest(sc: &Scenario) -> String {
    sha_hex(&serde_json::to_string(&sc.ops).unwrap_or_default())
}

/// a fresh instance fed only the canonical blocks up to `n` (never commits, never reorgs)
pub fn fresh_replay(chain: &[BlockRec], n: u64, tag: &str) -> Instance {
    let mut inst = Instance::fresh(tag);
    for b in chain.iter().filter(|b| b.height <= n) {
        for c in &b.calls {
            let _ = inst.call(&c.method, c.params.clone());
        }
    }
    inst
}

pub fn first_diff(a: &Obs, b: &Obs) -> Option<(String, Value)> {
    let d = obs::diff(a, b, 4);
    if d.is_empty() {
        return None;
    }
    let kind = obs::kind_of(&d[0].0);
    let detail = json!(d.iter().map(|(k, x, y)| json!({"query": k, "left": trunc(x), "right": trunc(y)})).collect::<Vec<_>>());
    Some((kind, detail))
}

/// shorten long strings inside a value so that violation details stay readable
pub fn trunc(v: &Value) -> Value {
    match v {
        Value::String(s) if s.len() > 200 => Value::String(format!("{}...({} chars, sha256 {})", &s[..120], s.len(), &sha_hex(s)[..16])),
        Value::Array(a) => Value::Array(a.iter().map(trunc).collect()),
        Value::Object(m) => Value::Object(m.iter().map(|(k, x)| (k.clone(), trunc(x))).collect()),
        _ => v.clone(),
    }
}

/// compare two instances over a universe; None = equal
pub fn compare(a: &mut Instance, b: &mut Instance, uni: &Universe, depth: Depth) -> Option<(String, Value)> {
    let oa = obs::observe(a, uni, depth);
    let ob = obs::observe(b, uni, depth);
    first_diff(&oa, &ob)
}

pub fn any_panic(resps: &[Resp]) -> Option<String> {
    resps.iter().find_map(|r| match r {
        Resp::Panic(m) => Some(m.clone()),
        _ => None,
    })
}

/// the liveness probe: one read and one write round must succeed
pub fn liveness(w: &mut World) -> Result<(), String> {
    let r = w.inst.call("eth_blockNumber", json!([]));
    if !r.is_ok() {
        return Err(format!("eth_blockNumber after the call: {:?}", r));
    }
    Ok(())
}

pub struct Timer(u64);
impl Timer {
    pub fn start() -> Timer {
        Timer(sim_now_ms())
    }
    pub fn elapsed(&self) -> u64 {
        sim_now_ms().saturating_sub(self.0)
    }
}

pub fn finish(sc: &Scenario, worlds: &[&World], nontrivial: bool, timer: &Timer, violation: Option<Violation>) -> RunOut {
    let mut stats = crate::world::Stats::default();
    for w in worlds {
        stats.merge(&w.stats);
    }
    let logs: Vec<&[CallRec]> = worlds.iter().map(|w| w.log.as_slice()).collect();
    RunOut {
        digest: ops_digest(sc),
        nontrivial,
        stats,
        sim_ms: timer.elapsed(),
        violation,
        transcript: transcript_digest(&logs),
        states: vec![],
    }
}
