//! C03 - commit points are unobservable; uncommitted work is exactly what is lost.
use super::common::*;
use crate::framework::{Prop, RunOut, Tier, Violation};
use crate::gen::{CommitSched, Gen, Profile};
use crate::inst::Instance;
use crate::obs::Depth;
use crate::ops::*;
use crate::rng::Rng;
use crate::world::{Call, World};
use serde_json::{json, Value};

pub struct C03;

fn profile(rng: &mut Rng) -> Profile {
    let mut p = Profile::default();
    p.blocks = (4, 20);
    p.commit = match rng.below(4) {
        0 => CommitSched::Every(1),
        1 => CommitSched::Every(rng.range(2, 5)),
        2 => CommitSched::Random(1, 2),
        _ => CommitSched::Random(1, 5),
    };
    // reorgs are part of the common history of both replicas (a commit before a deep reorg must not matter)
    p.p_reorg = (1, *rng.pick(&[6u64, 10, 1000]));
    p.reorg_back = vec![(1, 3), (2, 2), (3, 1), (9, 3), (10, 5), (11, 1)];
    p.p_clear = (1, *rng.pick(&[4u64, 8, 16]));
    p.p_restart = (1, *rng.pick(&[4u64, 8, 16]));
    p.p_midblock = (1, 6);
    p.p_park_commit = (1, *rng.pick(&[6u64, 12]));
    p.p_mine = (1, 10);
    p.commit_after_init = (2, 3);
    p.w_spin = 0;
    p.signed_chaos = rng.chance(1, 2);
    p.len_variety = rng.chance(1, 3);
    p
}

/// everything the indexer submitted that is not durable yet (lost blocks + the open block)
fn uncommitted_calls(w: &World) -> Vec<Call> {
    let mut v = vec![];
    for b in &w.chain {
        if w.committed.map_or(true, |c| b.height > c) {
            v.extend(b.calls.iter().cloned());
        }
    }
    if let Some(o) = &w.open {
        v.extend(o.calls.iter().cloned());
    }
    v
}

impl Prop for C03 {
    fn id(&self) -> &'static str {
        "C03"
    }
    fn runs(&self, tier: Tier) -> u64 {
        match tier {
            Tier::Quick => 480,
            Tier::Thorough => 6000,
        }
    }
    fn generate(&self, seed: u64, _tier: Tier) -> Value {
        let rng = Rng::new(seed);
        let p = profile(&mut rng.derive("profile"));
        let mut g = Gen::new(rng.derive("workload"), &p);
        case_of(&g.scenario())
    }
    fn rule(&self) -> String {
        "case = seeded history executed on replica A with its commit schedule {every block, every k, random}, clearCaches (block boundary and mid-block) and restarts (with/without commit) inserted, and on replica B that never commits and is never disturbed; reorgs (biased to depth 9-10) and re-submissions of orphaned transactions are executed by both. Oracles: every call result equal on A and B; obs(A)==obs(B) after every commit, after commit+restart and at sampled block boundaries; after clearCaches / restart without commit obs(A)==obs(fresh replay up to the last committed height) and, after the lost calls are fed again, obs(A)==obs(B); in half of the losses of two or more blocks the calls of the last lost block are fed first, right above the commit, to A and to the fresh replay alike (equal answers), and dropped again. distinct = sha256 of op list; non-trivial = a commit was followed by a comparison or uncommitted work was actually lost".into()
    }
    fn assumptions(&self) -> Vec<String> {
        vec!["reorgs are executed by both replicas (the never-committing replica then commits only through reorgs)".into()]
    }
    fn execute(&self, case: &Value) -> RunOut {
        let sc = scenario_of(case);
        setup(&sc);
        let timer = Timer::start();
        let mut a = World::new(Instance::fresh_seeded("c03-a", sc.hash_seed), sc.config.clone());
        let mut b = World::new(Instance::fresh_seeded("c03-b", sc.hash_seed ^ 0x5555), sc.config.clone());
        let mut nontrivial = false;
        let mut violation: Option<Violation> = None;
        let mut cmp_rng = Rng::new(sc.hash_seed).derive("cmp");

        macro_rules! check_equal {
            ($i:expr, $what:expr) => {{
                let mut uni = a.uni.clone();
                uni.merge(&b.uni);
                let depth = if a.open.is_some() { Depth::Getters } else { Depth::Full };
                if let Some((kind, detail)) = compare(&mut a.inst, &mut b.inst, &uni, depth) {
                    violation = Some(Violation::new(format!("{}/{}", $what, kind), json!({"op": $i, "diff(A,B)": detail})));
                }
            }};
        }

        'ops: for (i, op) in sc.ops.iter().enumerate() {
            match op {
                Op::Commit => {
                    let rs = a.exec(i, op);
                    if let Some(p) = any_panic(&rs) {
                        violation = Some(Violation::new("panic-in-commit", json!({"op": i, "panic": p})));
                        break 'ops;
                    }
                    if rs.first().map(|r| r.is_ok()).unwrap_or(false) {
                        nontrivial = true;
                        a.stats.bump("probe_compared_after_commit");
                        check_equal!(i, "after-commit");
                        if violation.is_some() {
                            break 'ops;
                        }
                    }
                }
                Op::ClearCaches | Op::Restart { .. } => {
                    let commit_first = matches!(op, Op::Restart { commit_first: true });
                    let lossless = commit_first && a.open.is_none();
                    if lossless {
                        let rs = a.exec(i, op);
                        if let Some(p) = any_panic(&rs) {
                            violation = Some(Violation::new("panic-in-restart", json!({"op": i, "panic": p})));
                            break 'ops;
                        }
                        nontrivial = true;
                        a.stats.bump("probe_commit_then_restart");
                        check_equal!(i, "after-commit-restart");
                        if violation.is_some() {
                            break 'ops;
                        }
                        continue;
                    }
                    // lossy: A falls back to its last commit
                    let saved = a.save();
                    let lost = uncommitted_calls(&a);
                    let mid = a.open.is_some();
                    let rs = a.exec(i, op);
                    if let Some(p) = any_panic(&rs) {
                        violation = Some(Violation::new("panic-in-clear-or-restart", json!({"op": i, "panic": p})));
                        break 'ops;
                    }
                    // a Restart{commit_first} mid-block: the commit is refused, then everything uncommitted is lost
                    if !lost.is_empty() {
                        nontrivial = true;
                        a.stats.bump(if mid { "probe_lost_work_midblock" } else { "probe_lost_work_boundary" });
                    }
                    let mut fresh = match saved.committed {
                        Some(c) => fresh_replay(&saved.chain, c, "c03-fresh"),
                        None => Instance::fresh("c03-empty"),
                    };
                    // transactions that were only parked when the last commit was accepted are part of that commit
                    for c in &saved.committed_parked {
                        let _ = fresh.call(&c.method, c.params.clone());
                    }
                    let uni = a.uni.clone();
                    if let Some((kind, detail)) = compare(&mut a.inst, &mut fresh, &uni, Depth::Full) {
                        violation = Some(Violation::new(
                            format!("state-after-loss-differs-from-last-commit/{kind}"),
                            json!({"op": i, "op_kind": op.kind_name(), "committed": saved.committed, "height_before": saved.height, "mid_block": mid, "diff(A,replay-to-commit)": detail}),
                        ));
                        break 'ops;
                    }
                    // "can continue from there": what was lost may come back in another order. The calls of the last lost
                    // block are fed first (they now build the block right above the commit, lower than where they ran before);
                    // A and the fresh replay must answer alike; then that detour is dropped again
                    let last_lost: Vec<Call> = saved.chain.iter().filter(|b| saved.committed.map_or(true, |c| b.height > c)).last().map(|b| b.calls.clone()).unwrap_or_default();
                    let lost_blocks = saved.chain.iter().filter(|b| saved.committed.map_or(true, |c| b.height > c)).count();
                    if lost_blocks >= 2 && !last_lost.is_empty() && cmp_rng.chance(1, 2) {
                        for c in &last_lost {
                            let ra = a.inst.call(&c.method, c.params.clone());
                            let rf = fresh.call(&c.method, c.params.clone());
                            if ra.is_panic() || ra.to_value() != rf.to_value() {
                                violation = Some(Violation::new(
                                    "continuation-after-loss-differs-from-continuation-of-last-commit",
                                    json!({"op": i, "op_kind": op.kind_name(), "committed": saved.committed, "call": c.method, "after_loss": trunc(&ra.to_value()), "fresh_replay_of_last_commit": trunc(&rf.to_value())}),
                                ));
                                break 'ops;
                            }
                        }
                        a.stats.bump("probe_lost_work_resubmitted_lower");
                        let r = a.inst.call("brc20_clearCaches", json!([]));
                        if !r.is_ok() {
                            violation = Some(Violation::new("panic-in-clear-or-restart", json!({"op": i, "resp": r.to_value()})));
                            break 'ops;
                        }
                    }
                    drop(fresh);
                    // feed the lost calls again: A must be where the undisturbed B is
                    for c in &lost {
                        let r = a.inst.call(&c.method, c.params.clone());
                        if r.is_panic() {
                            violation = Some(Violation::new("panic-while-refeeding", json!({"op": i, "call": c.method, "resp": r.to_value()})));
                            break 'ops;
                        }
                    }
                    let committed_now = a.committed;
                    a.restore(saved);
                    a.committed = committed_now;
                    check_equal!(i, "after-refeeding-lost-blocks");
                    if violation.is_some() {
                        break 'ops;
                    }
                }
                _ => {
                    let ra = a.exec(i, op);
                    let rb = b.exec(i, op);
                    let va: Vec<Value> = ra.iter().map(|r| r.to_value()).collect();
                    let vb: Vec<Value> = rb.iter().map(|r| r.to_value()).collect();
                    if any_panic(&ra).is_some() || any_panic(&rb).is_some() {
                        violation = Some(Violation::new("panic-in-history", json!({"op": i, "A": va, "B": vb})));
                        break 'ops;
                    }
                    if va != vb {
                        let k = va.iter().zip(vb.iter()).position(|(x, y)| x != y).unwrap_or(0);
                        let method = a.log.iter().filter(|c| c.op_index == i).nth(k).map(|c| c.call.method.clone()).unwrap_or_default();
                        violation = Some(Violation::new(
                            format!("call-result-differs/{method}"),
                            json!({"op": i, "call": k, "A": va.get(k).map(trunc), "B": vb.get(k).map(trunc), "A_committed": a.committed}),
                        ));
                        break 'ops;
                    }
                    if a.open.is_none() && cmp_rng.chance(1, 3) {
                        check_equal!(i, "at-boundary");
                        if violation.is_some() {
                            break 'ops;
                        }
                    }
                }
            }
        }
        if violation.is_none() {
            check_equal!(sc.ops.len(), "final");
        }
        finish(&sc, &[&a, &b], nontrivial, &timer, violation)
    }
}
