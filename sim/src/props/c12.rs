//! C12 - without credentials nobody can drive the indexer interface (fault enumeration over the real HTTP stack).
use crate::framework::{sha_hex, Prop, RunOut, Tier, Violation};
use crate::http::{basic, Client, Server};
use crate::inst::fresh_dir;
use crate::programs as pg;
use crate::rng::Rng;
use crate::world::{hex0x, pkscript, Stats, CONTROLLER, DEAD, ZERO_HASH};
use serde_json::{json, Value};

pub struct C12;

const USER: &str = "indexer";
const PASS: &str = "s3cret-pass";

/// well-formed parameters for every method, relative to a small prepared chain
/// the method names this check knows well-formed parameters for; any other registered name (a method added later, an
/// alias of an existing one) is tried with the parameters of every protected method
const KNOWN_METHODS: [&str; 58] = [
    "brc20_mine", "brc20_deploy", "brc20_call", "brc20_transact", "brc20_deposit", "brc20_withdraw", "brc20_balance", "brc20_initialise",
    "brc20_getTxReceiptByInscriptionId", "brc20_getInscriptionIdByTxHash", "brc20_getInscriptionIdByContractAddress", "brc20_finaliseBlock",
    "brc20_reorg", "brc20_commitToDatabase", "brc20_clearCaches", "brc20_version", "eth_getBlockByNumber", "eth_getBlockByHash",
    "eth_getTransactionCount", "eth_getBlockTransactionCountByNumber", "debug_getBlockTraceString", "debug_getBlockTraceHash",
    "debug_getRawHeader", "debug_getRawBlock", "debug_getRawReceipts", "eth_getBlockTransactionCountByHash", "eth_getLogs", "eth_call",
    "eth_estimateGas", "eth_callMany", "eth_estimateGasMany", "eth_getStorageAt", "eth_getCode", "txpool_contentFrom", "txpool_content",
    "eth_getTransactionReceipt", "debug_traceTransaction", "eth_getTransactionByHash", "eth_getTransactionByBlockNumberAndIndex",
    "eth_getTransactionByBlockHashAndIndex", "eth_getBalance", "eth_getUncleCountByBlockNumber", "eth_getUncleCountByBlockHash",
    "eth_getUncleByBlockNumberAndIndex", "eth_getUncleByBlockHashAndIndex", "web3_sha3", "eth_blockNumber", "eth_chainId", "eth_gasPrice",
    "eth_accounts", "eth_syncing", "net_version", "web3_clientVersion", "eth_blobBaseFee", "eth_maxPriorityFeePerGas", "eth_mining",
    "eth_hashrate", "eth_protocolVersion",
];

fn params_for(method: &str, height: u64, block_hash: &str, tx_hash: &str, n: u64, network: &str) -> Value {
    let hx = format!("0x{:x}", height);
    let ts = 1_700_000_500u64 + n;
    let call = json!({"from": DEAD, "to": CONTROLLER, "data": "0x"});
    match method {
        "brc20_mine" => json!([1, ts]),
        "brc20_deploy" => json!([pkscript(0), hex0x(&pg::store_initcode()), null, ts, ZERO_HASH, 0, format!("c12-deploy-{n}"), 2000, ZERO_HASH]),
        "brc20_call" => json!([pkscript(1), CONTROLLER, null, "0x01", null, ts, ZERO_HASH, 0, format!("c12-call-{n}"), 2000, ZERO_HASH]),
        "brc20_transact" => {
            // a properly signed transaction with the account's next nonce, so that an accepted call really executes
            let cfg = crate::inst::SimConfig { network: network.to_string(), ..Default::default() };
            let w = crate::world::World::new(crate::inst::Instance::closed(), cfg);
            let raw = w.sign_tx(0, 0, Some(crate::world::parse_addr(DEAD)), vec![1, 2, 3], true);
            json!([hex0x(&raw), null, ts, ZERO_HASH, 0, format!("c12-tx-{n}"), 2000, ZERO_HASH])
        }
        "brc20_deposit" => json!([pkscript(0), "ordi", "0x10", ts, ZERO_HASH, 0, format!("c12-dep-{n}")]),
        "brc20_withdraw" => json!([pkscript(0), "ordi", "0x1", ts, ZERO_HASH, 0, format!("c12-wd-{n}")]),
        "brc20_balance" => json!([pkscript(0), "ordi"]),
        "brc20_initialise" => json!([ZERO_HASH, ts, height + 1]),
        "brc20_getTxReceiptByInscriptionId" => json!(["BRC20_CONTROLLER_INIT"]),
        "brc20_getInscriptionIdByTxHash" => json!([tx_hash]),
        "brc20_getInscriptionIdByContractAddress" => json!([CONTROLLER]),
        "brc20_finaliseBlock" => json!([ts, ZERO_HASH, 0]),
        "brc20_reorg" => json!([height.saturating_sub(1)]),
        "eth_getBlockByNumber" => json!([hx, true]),
        "eth_getBlockByHash" => json!([block_hash, true]),
        "eth_getTransactionCount" => json!([CONTROLLER, "latest"]),
        "eth_getBlockTransactionCountByNumber" | "debug_getBlockTraceString" | "debug_getBlockTraceHash" | "debug_getRawHeader" | "debug_getRawBlock" | "debug_getRawReceipts" => json!([hx]),
        "eth_getBlockTransactionCountByHash" => json!([block_hash]),
        "eth_getLogs" => json!([{"fromBlock": "0x0", "toBlock": hx}]),
        "eth_call" | "eth_estimateGas" => json!([call]),
        "eth_callMany" | "eth_estimateGasMany" => json!([[call]]),
        "eth_getStorageAt" => json!([CONTROLLER, "0x0"]),
        "eth_getCode" | "txpool_contentFrom" => json!([CONTROLLER]),
        "eth_getTransactionReceipt" | "debug_traceTransaction" | "eth_getTransactionByHash" => json!([tx_hash]),
        "eth_getTransactionByBlockNumberAndIndex" => json!([0, 0]),
        "eth_getTransactionByBlockHashAndIndex" => json!([block_hash, 0]),
        "eth_getBalance" => json!([CONTROLLER, "latest"]),
        "eth_getUncleCountByBlockNumber" => json!([0]),
        "eth_getUncleCountByBlockHash" => json!([block_hash]),
        "eth_getUncleByBlockNumberAndIndex" => json!([0, 0]),
        "eth_getUncleByBlockHashAndIndex" => json!([block_hash, 0]),
        "web3_sha3" => json!(["0x1234"]),
        _ => json!([]),
    }
}

/// cheap public state digest; an opened block makes brc20_balance time out, so it is part of it
fn digest(c: &mut Client) -> Result<String, String> {
    let mut s = String::new();
    let latest = c.call("eth_blockNumber", json!([]), None)?;
    s.push_str(&latest.to_string());
    let hx = latest["result"].as_str().unwrap_or("0x0").to_string();
    for (m, p) in [
        ("eth_getBlockByNumber", json!([hx, true])),
        ("debug_getRawBlock", json!([hx])),
        ("txpool_content", json!([])),
        ("eth_getTransactionCount", json!(["0x0000000000000000000000000000000000003ca6", "latest"])),
        ("eth_getTransactionCount", json!([format!("0x{}", hex::encode(crate::world::pk_addr(0).as_slice())), "latest"])),
        ("eth_getTransactionCount", json!([format!("0x{}", hex::encode(crate::world::pk_addr(1).as_slice())), "latest"])),
        ("eth_getBlockByNumber", json!([format!("0x{:x}", u64::from_str_radix(hx.trim_start_matches("0x"), 16).unwrap_or(0) + 1), false])),
        ("brc20_balance", json!([pkscript(0), "ordi"])),
    ] {
        let mut v = c.call(m, p, None)?;
        if let Some(o) = v.pointer_mut("/result/mineTimestamp") {
            *o = json!("0x0");
        }
        s.push_str(&v.to_string());
    }
    Ok(sha_hex(&s))
}

fn is_401(v: &Value) -> bool {
    v["error"]["code"].as_i64() == Some(401)
}

struct Matrix {
    stats: Stats,
    violation: Option<Violation>,
    transcript: String,
}

/// the authentication settings of a case: (enabled, user, password)
fn creds_of(variant: u64) -> (bool, Option<&'static str>, Option<&'static str>) {
    match variant {
        0 => (true, Some(USER), Some(PASS)),
        // blank credentials are still credentials: `Basic Og==` is the only header that passes
        1 => (true, Some(""), Some("")),
        2 => (false, None, None),
        3 => (true, Some(USER), Some("")),
        4 => (true, Some(""), Some(PASS)),
        5 => (true, Some(USER), Some("pa:ss:w rd")),
        // disabled, with credentials lying around in the configuration
        6 => (false, Some(USER), Some(PASS)),
        _ => (true, Some(USER), Some(PASS)),
    }
}

/// authentication enabled with a credential missing: the server must not come up (it would serve everybody or nobody)
fn run_inconsistent(seed: u64) -> Matrix {
    let mut stats = Stats::default();
    let mut tr = String::new();
    let mut rng = Rng::new(seed);
    let network = *rng.pick(&["signet", "regtest", "mainnet"]);
    for (user, pass) in [(None, None), (Some(USER), None), (None, Some(PASS))] {
        let dir = fresh_dir("c12");
        let dirs = dir.to_string_lossy().to_string();
        let started = Server::start_with(network, false, &dirs, true, user, pass);
        stats.bump("inconsistent_configurations_started");
        stats.bump("http_requests");
        let mut violation = None;
        match started {
            Err(_) => tr.push('X'),
            Ok(srv) => {
                // it came up: then at least it must refuse an indexer method without a header
                let mut c = Client::new(srv.port);
                let r = c.call("brc20_mine", json!([1, 1_700_000_002u64]), None).unwrap_or(Value::Null);
                tr.push_str(if is_401(&r) { "U" } else { "R" });
                if !is_401(&r) {
                    violation = Some(Violation::new(
                        "protected-method-not-refused/credentials-missing-in-configuration",
                        json!({"user_set": user.is_some(), "password_set": pass.is_some(), "resp": r}),
                    ));
                }
                drop(c);
                srv.stop();
            }
        }
        let _ = std::fs::remove_dir_all(&dir);
        if violation.is_some() {
            return Matrix { stats, violation, transcript: tr };
        }
    }
    Matrix { stats, violation: None, transcript: tr }
}

fn run_matrix(seed: u64, variant: u64) -> Matrix {
    let (auth_on, cfg_user, cfg_pass) = creds_of(variant);
    let (user, pass) = (cfg_user.unwrap_or(USER), cfg_pass.unwrap_or(PASS));
    let mut stats = Stats::default();
    let mut tr = String::new();
    let mut rng = Rng::new(seed);
    let dir = fresh_dir("c12");
    let dirs = dir.to_string_lossy().to_string();
    let network = *rng.pick(&["signet", "regtest", "mainnet"]);
    let srv = match Server::start_with(network, false, &dirs, auth_on, cfg_user, cfg_pass) {
        Ok(s) => s,
        Err(e) => return Matrix { stats, violation: Some(Violation::new("harness/start-failed", json!({"error": e}))), transcript: tr },
    };
    let mut c = Client::new(srv.port);
    let good = basic(user, pass);
    macro_rules! bail {
        ($class:expr, $detail:expr) => {{
            drop(c);
            srv.stop();
            let _ = std::fs::remove_dir_all(&dir);
            return Matrix { stats, violation: Some(Violation::new($class, $detail)), transcript: tr };
        }};
    }
    // preparation with credentials: genesis + one deposit block
    let prep: Vec<(&str, Value)> = vec![
        ("brc20_initialise", json!([ZERO_HASH, 1_700_000_000u64, 0])),
        ("brc20_deposit", json!([pkscript(0), "ordi", "0x100", 1_700_000_001u64, ZERO_HASH, 0, "c12-prep"])),
        ("brc20_finaliseBlock", json!([1_700_000_001u64, ZERO_HASH, 1])),
        ("brc20_commitToDatabase", json!([])),
        // one uncommitted block stays on top, so that an unauthorised clearCaches or commit is observable
        ("brc20_mine", json!([1, 1_700_000_002u64])),
    ];
    for (m, p) in prep {
        match c.call(m, p, Some(&good)) {
            Ok(v) => {
                if is_401(&v) {
                    bail!("correct-credentials-rejected", json!({"method": m, "resp": v}));
                }
            }
            Err(e) => bail!("harness/http", json!({"error": e})),
        }
    }
    let names: Vec<String> = {
        let tmp = fresh_dir("c12-names");
        let n = crate::inst::Instance::open(&tmp).map(|i| i.method_names()).unwrap_or_default();
        let _ = std::fs::remove_dir_all(&tmp);
        n
    };
    let protected: Vec<String> = brc20_prog::verif::INDEXER_METHODS.iter().cloned().collect();
    let block = c.call("eth_getBlockByNumber", json!(["0x1", false]), None).unwrap_or(Value::Null);
    let bh = block["result"]["hash"].as_str().unwrap_or(ZERO_HASH).to_string();
    let th = block["result"]["transactions"][0].as_str().unwrap_or(ZERO_HASH).to_string();
    let headers: Vec<(&str, Option<String>)> = vec![
        ("none", None),
        ("wrong-user", Some(basic(if user == "intruder" { "other" } else { "intruder" }, pass))),
        ("wrong-password", Some(basic(user, if pass.is_empty() { "guess" } else { &pass[..pass.len() - 1] }))),
        // for non-blank credentials the blank pair `Basic Og==` is one more wrong header
        ("malformed", Some(rng.pick(&["Basic", "Basic ====", "Bearer abc", "basic aW5kZXhlcjpzM2NyZXQtcGFzcw==", " ", "Basic aW5kZXhlcg==", if user.is_empty() && pass.is_empty() { "Basic" } else { "Basic Og==" }]).to_string())),
        ("correct", Some(good.clone())),
    ];
    // registered names without a parameter template: with the parameters of every protected method, without credentials
    if auth_on {
        for m in names.iter().filter(|m| !KNOWN_METHODS.contains(&m.as_str()) && !protected.contains(*m)) {
            stats.bump("unknown_registered_names_probed");
            for (k, t) in protected.iter().enumerate() {
                let p = params_for(t, 2, &bh, &th, 900_000 + k as u64, network);
                let before = match digest(&mut c) { Ok(d) => d, Err(e) => bail!("harness/http", json!({"error": e})) };
                let resp = c.call(m, p, None).unwrap_or(Value::Null);
                stats.bump("http_requests");
                tr.push('?');
                let after = match digest(&mut c) { Ok(d) => d, Err(e) => bail!("harness/http", json!({"error": e})) };
                let mut changed = after != before;
                if !changed && t.as_str() == "brc20_commitToDatabase" {
                    let _ = c.call("brc20_clearCaches", json!([]), Some(&good));
                    let hnow = c.call("eth_blockNumber", json!([]), None).unwrap_or(Value::Null);
                    changed = hnow["result"].as_str() != Some("0x1");
                    let _ = c.call("brc20_mine", json!([1, 1_700_000_002u64]), Some(&good));
                }
                if changed {
                    bail!("mutating-method-not-on-protected-list", json!({"method": m, "why": format!("a registered name outside the protected list changes state when it is given the parameters of {t}"), "resp": resp}));
                }
            }
        }
    }
    // public executing reads that the EVM refuses outright (sender with code, oversized init code, call data whose
    // intrinsic cost exceeds the limit): anonymous, and the indexer must be able to carry on afterwards
    if auth_on {
        let refused: Vec<(&str, Value)> = vec![
            ("eth_call", json!([{"from": CONTROLLER, "to": CONTROLLER, "data": "0x"}])),
            ("eth_estimateGas", json!([{"from": CONTROLLER, "to": CONTROLLER, "data": "0x"}])),
            ("eth_call", json!([{"from": DEAD, "data": format!("0x{}", "00".repeat(50_000))}])),
            ("eth_callMany", json!([[{"from": CONTROLLER, "to": CONTROLLER, "data": "0x"}], null, {"opReturnTxIds": [], "bitcoinTxHexes": {}}])),
            ("brc20_balance", json!(["", "ordi"])),
        ];
        for (m, p) in refused {
            let before = match digest(&mut c) { Ok(d) => d, Err(e) => bail!("harness/http", json!({"error": e})) };
            let resp = c.call(m, p, None);
            stats.bump("http_requests");
            stats.bump("refused_public_reads");
            tr.push('!');
            let after = digest(&mut c);
            let mine = c.call("brc20_mine", json!([1, 1_700_000_003u64]), Some(&good)).unwrap_or(Value::Null);
            // back to the prepared shape: height 1 committed, one uncommitted block on top
            let back = c.call("brc20_reorg", json!([1]), Some(&good)).unwrap_or(Value::Null);
            let _ = c.call("brc20_mine", json!([1, 1_700_000_002u64]), Some(&good));
            if after.as_ref().ok() != Some(&before) || !mine["error"].is_null() || !back["error"].is_null() {
                bail!("unauthorised-request-changed-state", json!({"method": m, "why": "an anonymous read that the EVM refuses left the instance changed or unusable for the authorised indexer", "resp": resp.unwrap_or(Value::Null), "digest_after": after.err(), "authorised_mine_after": mine, "authorised_reorg_after": back}));
            }
        }
    }
    let mut n = 0u64;
    for m in &names {
        for (hname, header) in &headers {
            let authorised = !auth_on || *hname == "correct";
            for shape in ["call", "notification", "batch-first", "batch-middle", "batch-last", "batch-after-invalid", "batch-before-invalid"] {
                n += 1;
                let height = 2;
                let p = params_for(m, height, &bh, &th, n, network);
                let this = json!({"jsonrpc": "2.0", "id": 7, "method": m, "params": p});
                let benign = |id: u64| json!({"jsonrpc": "2.0", "id": id, "method": "eth_blockNumber", "params": []});
                let body = match shape {
                    "call" => this.to_string(),
                    "notification" => json!({"jsonrpc": "2.0", "method": m, "params": p}).to_string(),
                    "batch-first" => json!([this, benign(8), benign(9)]).to_string(),
                    "batch-middle" => json!([benign(8), this, benign(9)]).to_string(),
                    // an element that is not a request object at all, before / after the call under test
                    "batch-after-invalid" => json!([1, this, benign(9)]).to_string(),
                    "batch-before-invalid" => json!([benign(8), this, "x"]).to_string(),
                    _ => json!([benign(8), benign(9), this]).to_string(),
                };
                let is_protected = protected.contains(m);
                // mutating calls by an authorised client legitimately change state: only unauthorised ones are digested
                let before = if !authorised { Some(match digest(&mut c) { Ok(d) => d, Err(e) => bail!("harness/http", json!({"error": e})) }) } else { None };
                let resp = match c.post(&body, header.as_deref()) {
                    Ok(r) => r,
                    Err(e) => bail!("harness/http", json!({"error": e, "method": m})),
                };
                stats.bump(&format!("requests_{}_{}", if auth_on { "auth_on" } else { "auth_off" }, hname));
                stats.bump(&format!("requests_credentials_variant_{variant}"));
                stats.bump("http_requests");
                let v = resp.json();
                tr.push_str(&format!("{}{}", resp.status, if v.is_array() { "B" } else if is_401(&v) { "U" } else if v["error"].is_object() { "E" } else if v.is_null() { "-" } else { "R" }));
                let mine: Value = match shape {
                    "call" => v.clone(),
                    "notification" => Value::Null,
                    _ => v.as_array().and_then(|a| a.iter().find(|x| x["id"].as_u64() == Some(7)).cloned()).unwrap_or(Value::Null),
                };
                if !authorised {
                    if is_protected && shape != "notification" && !is_401(&mine) {
                        bail!("protected-method-not-refused", json!({"method": m, "shape": shape, "header": hname, "resp": mine}));
                    }
                    if !is_protected && shape != "notification" && is_401(&mine) {
                        bail!("public-method-refused", json!({"method": m, "shape": shape, "header": hname, "resp": mine}));
                    }
                    if shape.starts_with("batch") {
                        // the permitted calls in the same batch keep working
                        let ok = v.as_array().map(|a| a.iter().filter(|x| matches!(x["id"].as_u64(), Some(8) | Some(9))).all(|x| x["result"].is_string())).unwrap_or(false);
                        if !ok {
                            bail!("permitted-batch-elements-affected", json!({"method": m, "shape": shape, "header": hname, "resp": v}));
                        }
                    }
                    let after = match digest(&mut c) {
                        Ok(d) => d,
                        Err(e) => bail!("harness/http", json!({"error": e})),
                    };
                    if Some(&after) != before.as_ref() {
                        bail!(
                            if is_protected { "unauthorised-request-changed-state" } else { "mutating-method-not-on-protected-list" },
                            json!({"method": m, "shape": shape, "header": hname, "resp": mine})
                        );
                    }
                    stats.bump("unauthorised_requests_digested");
                    if !is_protected && m.starts_with("brc20_") && shape == "call" {
                        // a commit is invisible to queries: drop the caches and see whether the uncommitted block is gone
                        let _ = c.call("brc20_clearCaches", json!([]), Some(&good));
                        let hnow = c.call("eth_blockNumber", json!([]), None).unwrap_or(Value::Null);
                        if hnow["result"].as_str() != Some("0x1") {
                            bail!("mutating-method-not-on-protected-list", json!({"method": m, "header": hname, "why": "the uncommitted block survived clearCaches: the unauthorised call committed it", "height_after_clearCaches": hnow["result"]}));
                        }
                        let _ = c.call("brc20_mine", json!([1, 1_700_000_002u64]), Some(&good));
                        stats.bump("commit_probes");
                    }
                } else {
                    if shape != "notification" && is_401(&mine) {
                        bail!("authorised-request-refused", json!({"method": m, "shape": shape, "header": hname, "auth_enabled": auth_on, "resp": mine}));
                    }
                    // keep the chain tidy for the following rows: drop whatever an authorised mutating call opened
                    if m.starts_with("brc20_") {
                        let _ = c.call("brc20_clearCaches", json!([]), Some(&good));
                        // whatever the authorised call did (commit, reorg, mine ...), get back to: committed
                        // height 1 + one uncommitted block
                        let hnow = c.call("eth_blockNumber", json!([]), None).unwrap_or(Value::Null);
                        let hn = u64::from_str_radix(hnow["result"].as_str().unwrap_or("0x0").trim_start_matches("0x"), 16).unwrap_or(0);
                        if hn > 1 {
                            let _ = c.call("brc20_reorg", json!([1]), Some(&good));
                        } else if hn == 0 {
                            let _ = c.call("brc20_deposit", json!([pkscript(0), "ordi", "0x100", 1_700_000_001u64, ZERO_HASH, 0, "c12-prep"]), Some(&good));
                            let _ = c.call("brc20_finaliseBlock", json!([1_700_000_001u64, ZERO_HASH, 1]), Some(&good));
                            let _ = c.call("brc20_commitToDatabase", json!([]), Some(&good));
                        }
                        let _ = c.call("brc20_mine", json!([1, 1_700_000_002u64]), Some(&good));
                    }
                }
            }
        }
    }
    stats.add("methods_enumerated", names.len() as u64);
    drop(c);
    srv.stop();
    let _ = std::fs::remove_dir_all(&dir);
    Matrix { stats, violation: None, transcript: tr }
}

impl Prop for C12 {
    fn id(&self) -> &'static str {
        "C12"
    }
    fn level(&self) -> &'static str {
        "fault_enumeration"
    }
    fn runs(&self, tier: Tier) -> u64 {
        match tier {
            Tier::Quick => 8,
            Tier::Thorough => 48,
        }
    }
    fn exhaustive(&self) -> bool {
        true
    }
    fn evaluations_from(&self) -> Option<&'static str> {
        Some("http_requests")
    }
    fn hang_timeout_s(&self) -> u64 {
        400
    }
    fn generate(&self, seed: u64, _tier: Tier) -> Value {
        json!({"seed": seed, "variant": seed % 8})
    }
    /// every batch of 8 consecutive runs covers every configuration variant
    fn case_for_run(&self, i: u64, seed: u64, _tier: Tier) -> Value {
        json!({"seed": seed, "variant": i % 8})
    }
    fn shrink(&self, _case: &Value) -> Vec<Value> {
        vec![]
    }
    fn rule(&self) -> String {
        "case = (seed, authentication settings: enabled with ordinary / blank / half-blank / colon-containing credentials, disabled with and without credentials configured, enabled with a credential missing - then start() must refuse to come up). The real start() serves on loopback; one synchronous HTTP/1.1 client enumerates every registered method x {single call, notification, batch element first / middle / last among permitted calls, batch element after / before an element that is not a request object} x {no header, wrong user, wrong password, malformed header, correct header}. For every request that is not authorised, a public state digest (height, latest block, raw block, next block, txpool, nonces of the indexer and of two senders, brc20_balance - which times out if a block was opened) is taken before and after: it must not change, protected methods must answer 401 per element, public methods and the permitted batch elements must keep working; every non-protected method is called with well-formed parameters, so a mutating method missing from the protected list shows up as a digest change; a registered name this check has no parameters for (a later addition, an alias) is called without credentials with the parameters of every protected method in turn. With the correct header, and with authentication disabled, no method may answer 401. The seed varies the network, the malformed header and the inscription ids. exhaustive over methods x shapes x headers; distinct = (seed, settings variant); non-trivial = the full matrix ran".into()
    }
    fn assumptions(&self) -> Vec<String> {
        vec![
            "sockets are real; with a single blocking client the transcript is a function of the request list".into(),
            "WebSocket upgrade is not exercised".into(),
        ]
    }
    fn components(&self) -> Value {
        json!({"real": ["start()", "hyper/jsonrpsee HTTP server", "HttpNonBlockingAuth + RpcAuthMiddleware", "handlers, engine, RocksDB"], "stub": ["Bitcoin node (unreachable)"]})
    }
    fn execute(&self, case: &Value) -> RunOut {
        let seed = case["seed"].as_u64().unwrap_or(1);
        let variant = case["variant"].as_u64().unwrap_or(0);
        let m = if variant == 7 { run_inconsistent(seed) } else { run_matrix(seed, variant) };
        RunOut {
            digest: sha_hex(&case.to_string()),
            nontrivial: m.violation.is_none(),
            stats: m.stats,
            sim_ms: 0,
            violation: m.violation,
            transcript: sha_hex(&m.transcript),
            states: vec![],
        }
    }
}
