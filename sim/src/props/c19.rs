//! C19 - contracts see exactly the block context the indexer supplied.
use super::common::*;
use crate::framework::{Prop, RunOut, Tier, Violation};
use crate::inst::{chain_id_for, Instance, Resp, SimConfig};
use crate::ops::*;
use crate::programs as pg;
use crate::rng::Rng;
use crate::world::{addr_str, block_hash_for, hex_u64, pk_addr, signer, txid_for, World, BASE_TS, INDEXER, N_PK, N_SIGNERS};
use serde_json::{json, Value};

pub struct C19;

const DISTANCES: [u16; 7] = [1, 2, 10, 11, 255, 256, 257];

/// where the Prague rules are in force: everywhere except below the activation heights of the two live networks
/// (signet 275000, mainnet 923369 - the schedule of the protocol version these checks were written against)
fn prague_at(network: &str, block_being_built: u64) -> bool {
    match network {
        "signet" => block_being_built >= 275_000,
        "mainnet" | "bitcoin" => block_being_built >= 923_369,
        _ => true,
    }
}

fn word_u64(v: u64) -> String {
    format!("0x{:064x}", v)
}
fn word_addr(a: &str) -> String {
    format!("0x{:0>64}", a.trim_start_matches("0x").to_lowercase())
}

fn gen_case(seed: u64) -> Scenario {
    let rng = Rng::new(seed);
    let mut r = rng.derive("workload");
    let network = r.pick(&["signet", "regtest", "mainnet", "testnet4", "testnet", "weird"]).to_string();
    let mut ops = vec![];
    if r.chance(1, 4) {
        ops.push(Op::Mine { n: r.range(1, 3) });
    }
    ops.push(Op::Init { hash: if r.chance(1, 2) { HashMode::Zero } else { HashMode::Explicit(1) } });
    ops.push(Op::Commit);
    // two probe contracts
    ops.push(Op::Block {
        ts: 5,
        hash: HashMode::Zero,
        txs: vec![
            Tx { id: 3, kind: TxKind::Deploy { sender: 0, prog: DeployProg::Probe }, len: LenPolicy::Generous, enc: Enc::Hex },
            Tx { id: 4, kind: TxKind::Deploy { sender: 1, prog: DeployProg::Probe }, len: LenPolicy::Generous, enc: Enc::Hex },
            // a forwarding contract, for probes reached through another contract
            Tx { id: 5, kind: TxKind::Deploy { sender: 2, prog: DeployProg::Store }, len: LenPolicy::Generous, enc: Enc::Hex },
        ],
        finalise: true,
    });
    // the probe contracts are durable: losses of caches below only drop later blocks
    ops.push(Op::Commit);
    let mut id = 20u32;
    let mut tag = 100u32;
    let mut ts = 10u64;
    let n_blocks = r.range(4, 24);
    for _ in 0..n_blocks {
        ts += r.range(0, 1000);
        tag += 1;
        let hash = if r.chance(1, 2) { HashMode::Zero } else { HashMode::Explicit(tag) };
        let n = r.range(0, 3);
        let mut txs = vec![];
        for _ in 0..n {
            id += 1;
            let probe = Cd::Probe(DISTANCES.to_vec());
            let which = Target::Contract(r.below(2) as u8);
            let kind = match r.below(12) {
                0..=4 => TxKind::Call { sender: r.below(N_PK as u64) as u8, target: which, by_inscription: r.chance(1, 4), data: probe },
                5..=6 => TxKind::Transact { signer: r.below(N_SIGNERS as u64) as u8, nonce: NonceSpec::Rel(0), to: Some(which), data: probe, deploy: None, chain_ok: true },
                7..=8 => TxKind::Transact { signer: r.below(N_SIGNERS as u64) as u8, nonce: NonceSpec::Rel(1), to: Some(which), data: probe, deploy: None, chain_ok: true },
                9 => TxKind::Deposit { to: Who::Pk(r.below(4) as u8), ticker: 0, amount: Amount::Small(r.range(1, 50)) },
                10 => TxKind::Withdraw { from: Who::Pk(r.below(4) as u8), ticker: 0, amount: Amount::Small(r.range(1, 20)) },
                _ => TxKind::Call { sender: r.below(N_PK as u64) as u8, target: Target::Contract(2), by_inscription: false, data: Cd::CallOther { kind: 0, target: Target::Contract(r.below(2) as u8), inner: Box::new(Cd::Probe(DISTANCES.to_vec())) } },
            };
            txs.push(Tx { id, kind, len: LenPolicy::Generous, enc: Enc::Hex });
        }
        ops.push(Op::Block { ts, hash, txs, finalise: true });
        if r.chance(1, 5) {
            ops.push(Op::Commit);
        }
        if r.chance(1, 8) {
            ops.push(Op::Mine { n: *r.pick(&[1u64, 2, 5]) });
        }
        if r.chance(1, 10) {
            ops.push(Op::Reorg { back: *r.pick(&[1i64, 2, 3]) });
        }
        // finalised but uncommitted blocks are dropped: the next transaction is built at a lower height again
        if r.chance(1, 12) {
            ops.push(if r.chance(2, 3) { Op::ClearCaches } else { Op::Restart { commit_first: false } });
        }
        if r.chance(1, 25) {
            ops.push(Op::Mine { n: 250 });
        }
    }
    Scenario { config: SimConfig { network, traces: r.chance(1, 2), ..SimConfig::default() }, hash_seed: r.next(), ops }
}

struct Expect {
    contract: String,
    number: u64,
    timestamp: u64,
    prevrandao: String,
    caller: String,
    origin: String,
    txid: String,
}

fn read_slot(w: &mut World, c: &str, slot: u64) -> Option<String> {
    match w.inst.call("eth_getStorageAt", json!([c, format!("0x{:x}", slot)])) {
        Resp::Ok(Value::String(s)) => Some(s.to_lowercase()),
        _ => None,
    }
}

fn check_probe(w: &mut World, e: &Expect, prague: bool, chain_id: u64) -> Option<Violation> {
    let zero = word_u64(0);
    let want: Vec<(&str, String)> = vec![
        ("number", word_u64(e.number)),
        ("timestamp", word_u64(e.timestamp)),
        ("prevrandao", e.prevrandao.to_lowercase()),
        ("chainid", word_u64(chain_id)),
        ("basefee", zero.clone()),
        ("gasprice", zero.clone()),
        ("coinbase", zero.clone()),
        ("origin", word_addr(&e.origin)),
        ("caller", word_addr(&e.caller)),
        ("fa_success", word_u64(1)),
        ("fa_word", if prague { e.txid.to_lowercase() } else { zero.clone() }),
        ("fa_retsize", word_u64(if prague { 32 } else { 0 })),
    ];
    for (i, (name, wv)) in want.iter().enumerate() {
        let got = read_slot(w, &e.contract, pg::PROBE_BASE + i as u64);
        if got.as_deref() != Some(wv.as_str()) {
            return Some(Violation::new(
                format!("context-field-wrong/{name}"),
                json!({"contract": e.contract, "field": name, "seen_by_contract": got, "supplied": wv, "block_being_built": e.number, "prague_in_force": prague}),
            ));
        }
    }
    // BLOCKHASH of the previous 256 blocks
    for (i, d) in DISTANCES.iter().enumerate() {
        let got = read_slot(w, &e.contract, pg::PROBE_HASH_BASE + i as u64);
        let want = if (*d as u64) <= e.number && *d <= 256 {
            let h = e.number - *d as u64;
            match w.chain.iter().find(|b| b.height == h).map(|b| b.hash.to_lowercase()) {
                Some(x) => x,
                // below the bookkeeping (blocks mined in bulk to reach an activation height): what the instance serves
                None if h <= w.uni.from_height => w
                    .inst
                    .call("eth_getBlockByNumber", json!([format!("0x{:x}", h), false]))
                    .ok()
                    .and_then(|b| b["hash"].as_str().map(|s| s.to_lowercase()))
                    .unwrap_or_else(|| zero.clone()),
                None => zero.clone(),
            }
        } else {
            zero.clone()
        };
        if got.as_deref() != Some(want.as_str()) {
            return Some(Violation::new(
                "context-field-wrong/blockhash",
                json!({"contract": e.contract, "distance": d, "block_being_built": e.number, "seen_by_contract": got, "hash_of_that_block": want}),
            ));
        }
    }
    None
}

impl Prop for C19 {
    fn id(&self) -> &'static str {
        "C19"
    }
    fn runs(&self, tier: Tier) -> u64 {
        match tier {
            Tier::Quick => 960,
            Tier::Thorough => 10000,
        }
    }
    fn generate(&self, seed: u64, _tier: Tier) -> Value {
        case_of(&gen_case(seed))
    }
    /// the first six runs of every batch cross an activation height: the chain is mined (empty blocks, in committed
    /// chunks) to a few blocks below it right after genesis, so that the history's own blocks straddle it
    fn case_for_run(&self, i: u64, seed: u64, tier: Tier) -> Value {
        let mut v = self.generate(seed, tier);
        if i < 6 {
            let (net, act) = if i % 3 < 2 { ("signet", 275_000u64) } else { ("mainnet", 923_369u64) };
            v["config"]["network"] = json!(net);
            v["altitude"] = json!(act - 3 - seed % 8);
            // no 250-block idle gaps and no reorgs right at the start: the blocks of the history stay around the height
            if let Some(ops) = v["ops"].as_array_mut() {
                ops.retain(|o| o.get("Mine").and_then(|m| m["n"].as_u64()).map_or(true, |n| n < 50));
                if ops.first().map_or(false, |o| o.get("Mine").is_some()) {
                    ops.remove(0);
                }
            }
        }
        v
    }
    fn shrink(&self, case: &Value) -> Vec<Value> {
        // keep everything up to and including the probe deployments
        let keep = case["ops"].as_array().map(|a| a.iter().position(|o| o.get("Block").is_some()).unwrap_or(0) + 1).unwrap_or(0);
        let head = case["ops"].as_array().map(|a| a.iter().take(keep).cloned().collect::<Vec<_>>()).unwrap_or_default();
        crate::framework::shrink_ops(case)
            .into_iter()
            .filter(|c| c["ops"].as_array().map(|a| a.iter().take(keep).cloned().collect::<Vec<_>>() == head).unwrap_or(false))
            .collect()
    }
    fn rule(&self) -> String {
        "case = seeded history on one of 6 networks (with / without the Prague rules at low heights; the first six runs of a batch are mined to a few blocks below an activation height first, so that their blocks straddle it) in which a Probe contract (writes NUMBER, TIMESTAMP, PREVRANDAO, CHAINID, BASEFEE, GASPRICE, COINBASE, ORIGIN, CALLER, staticcall(0xfa getTxId()), BLOCKHASH(n-d) for d in {1,2,10,11,255,256,257} to storage) is executed as inscription transaction (by address and by inscription id), as signed transaction, as parked-then-drained signed transaction, and through another contract, with arbitrary timestamps, explicit and server-generated hashes, commits, idle gaps (incl. > 256 blocks) and reorgs. After every such transaction the slots are read back with eth_getStorageAt and compared with what the harness supplied for *that* transaction (the drained transaction must see its own txid and the current block). Deposits / withdrawals: receipt.from must be the indexer address. distinct = sha256 of op list; non-trivial = at least one drained parked probe and one direct probe were checked".into()
    }
    fn assumptions(&self) -> Vec<String> {
        vec!["the first six runs of every batch straddle an activation height (signet 275000 four times, mainnet 923369 twice; the heights are those of the protocol version these checks were written against); block hashes of the bulk-mined blocks are taken from the instance".into()]
    }
    fn execute(&self, case: &Value) -> RunOut {
        let sc = scenario_of(case);
        setup(&sc);
        let timer = Timer::start();
        let mut w = World::new(Instance::fresh_seeded("c19", sc.hash_seed), sc.config.clone());
        let chain_id = chain_id_for(&sc.config.network);
        let mut violation: Option<Violation> = None;
        let (mut direct, mut drained) = (false, false);
        // parked probes: (signer, nonce) -> (contract address at parking time, txid)
        let mut parked: std::collections::BTreeMap<(u8, u64), (String, String, u64)> = Default::default();

        'ops: for (i, op) in sc.ops.iter().enumerate() {
            let Op::Block { ts, hash, txs, finalise } = op else {
                let rs = w.exec(i, op);
                if let Some(p) = any_panic(&rs) {
                    violation = Some(Violation::new("panic-in-history", json!({"op": i, "panic": p})));
                    break 'ops;
                }
                if matches!(op, Op::Reorg { .. } | Op::ClearCaches | Op::Restart { .. }) {
                    let h = w.height.unwrap_or(0);
                    parked.retain(|_, v| v.2 <= h);
                }
                // straight after the first commit (genesis is durable): bulk-mine to the requested height
                if let (Op::Commit, Some(alt), 0) = (op, case.get("altitude").and_then(|a| a.as_u64()), w.uni.from_height) {
                    let mut h = w.height.unwrap_or(0);
                    while h < alt {
                        let n = (alt - h).min(10_000);
                        let r = w.inst.call("brc20_mine", json!({"block_count": n, "timestamp": BASE_TS + 1}));
                        let c = w.inst.call("brc20_commitToDatabase", json!([]));
                        if !r.is_ok() || !c.is_ok() {
                            violation = Some(Violation::new("panic-in-history", json!({"mine": r.to_value(), "commit": c.to_value(), "height": h})));
                            break 'ops;
                        }
                        h += n;
                    }
                    w.height = Some(h);
                    w.committed = Some(h);
                    w.max_finalised = Some(h);
                    w.uni.from_height = h;
                    w.uni.max_height = h;
                    w.stats.add("blocks_mined_to_altitude", h);
                }
                continue;
            };
            w.op_index = i;
            let ts_abs = BASE_TS + *ts;
            for tx in txs {
                let number = w.next_height();
                let (ots, ohash) = match &w.open {
                    Some(o) => (o.ts, o.hash_param.clone()),
                    None => (ts_abs, match hash {
                        HashMode::Zero => crate::world::ZERO_HASH.to_string(),
                        HashMode::Explicit(t) => block_hash_for(*t),
                    }),
                };
                let prevrandao = if ohash == crate::world::ZERO_HASH { word_u64(number + 1) } else { ohash.clone() };
                // what this transaction should see, resolved before execution
                let mut expects: Vec<Expect> = vec![];
                let mut park_key: Option<(u8, u64)> = None;
                match &tx.kind {
                    TxKind::Call { sender, target, data, .. } => {
                        let s = addr_str(&pk_addr(*sender % N_PK));
                        match data {
                            Cd::Probe(_) => expects.push(Expect { contract: addr_str(&w.target_addr(target)), number, timestamp: ots, prevrandao: prevrandao.clone(), caller: s.clone(), origin: s, txid: txid_for(tx.id) }),
                            Cd::CallOther { target: t2, .. } => expects.push(Expect { contract: addr_str(&w.target_addr(t2)), number, timestamp: ots, prevrandao: prevrandao.clone(), caller: addr_str(&w.target_addr(target)), origin: s, txid: txid_for(tx.id) }),
                            _ => {}
                        }
                    }
                    TxKind::Transact { signer: sg, nonce: NonceSpec::Rel(k), to: Some(target), .. } => {
                        let sa = signer(*sg % N_SIGNERS).address();
                        let s = addr_str(&sa);
                        let n = w.account_nonce(&sa);
                        let c = addr_str(&w.target_addr(target));
                        if *k == 0 {
                            expects.push(Expect { contract: c, number, timestamp: ots, prevrandao: prevrandao.clone(), caller: s.clone(), origin: s.clone(), txid: txid_for(tx.id) });
                            // successors parked earlier run right after, each with its own txid
                            let mut nx = n + 1;
                            while let Some((pc, ptxid, pb)) = parked.get(&(*sg % N_SIGNERS, nx)).cloned() {
                                if pb + 10 > number {
                                    expects.push(Expect { contract: pc, number, timestamp: ots, prevrandao: prevrandao.clone(), caller: s.clone(), origin: s.clone(), txid: ptxid });
                                    parked.remove(&(*sg % N_SIGNERS, nx));
                                    nx += 1;
                                } else {
                                    parked.remove(&(*sg % N_SIGNERS, nx));
                                    break;
                                }
                            }
                        } else {
                            park_key = Some((*sg % N_SIGNERS, n + *k as u64));
                            parked.insert((*sg % N_SIGNERS, n + *k as u64), (c, txid_for(tx.id), number));
                        }
                    }
                    _ => {}
                }
                let r = w.exec_tx(ts_abs, hash, tx);
                let receipts: Vec<Value> = match &r {
                    Resp::Ok(Value::Array(a)) => a.clone(),
                    Resp::Ok(v) if !v.is_null() => vec![v.clone()],
                    Resp::Ok(_) => vec![],
                    Resp::Panic(p) => {
                        violation = Some(Violation::new("panic-in-transaction", json!({"op": i, "tx": tx.id, "panic": p})));
                        break 'ops;
                    }
                    Resp::Err { .. } => {
                        if let Some(k) = park_key {
                            parked.remove(&k);
                        }
                        continue;
                    }
                };
                if matches!(tx.kind, TxKind::Deposit { .. } | TxKind::Withdraw { .. }) {
                    if receipts.first().and_then(|r| r["from"].as_str()).map(|s| s.to_lowercase()) != Some(INDEXER.to_string()) {
                        violation = Some(Violation::new("bridge-op-not-run-as-indexer", json!({"op": i, "tx": tx.id, "receipt": receipts.first().map(trunc)})));
                        break 'ops;
                    }
                    w.stats.bump("probe_bridge_op_sender_checked");
                    continue;
                }
                if expects.is_empty() {
                    continue;
                }
                if receipts.len() != expects.len() {
                    // parked bookkeeping of this harness and the engine disagree: C08's subject, not judged here
                    w.stats.bump("skipped_receipt_count_mismatch");
                    continue;
                }
                // both probe contracts may be written by one call; check from the last execution backwards
                // and only the last writer of each contract
                let mut seen: Vec<String> = vec![];
                for (j, e) in expects.iter().enumerate().rev() {
                    if seen.contains(&e.contract) {
                        continue;
                    }
                    seen.push(e.contract.clone());
                    if hex_u64(&receipts[j]["status"]) != Some(1) {
                        continue;
                    }
                    if !w.book.contracts.iter().any(|c| c.addr == e.contract && c.kind == "probe") {
                        continue;
                    }
                    let prague = prague_at(&sc.config.network, e.number);
                    if let Some(mut v) = check_probe(&mut w, e, prague, chain_id) {
                        v.detail["op"] = json!(i);
                        v.detail["tx"] = json!(tx.id);
                        v.detail["position_in_call"] = json!(j);
                        v.detail["network"] = json!(sc.config.network);
                        violation = Some(v);
                        break 'ops;
                    }
                    if j > 0 {
                        drained = true;
                        w.stats.bump("probe_drained_tx_context_checked");
                    } else {
                        direct = true;
                        w.stats.bump("probe_direct_tx_context_checked");
                    }
                }
            }
            if *finalise {
                let r = w.finalise(ts_abs, hash);
                if !r.is_ok() {
                    // e.g. explicit hash collision: not this property's subject
                    w.exec(i, &Op::ClearCaches);
                    parked.clear();
                }
            }
        }
        finish(&sc, &[&w], direct && drained, &timer, violation)
    }
}
