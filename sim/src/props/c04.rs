//! C04 - a crash at any persistent write is recoverable by a reorg to a durable height (fault enumeration).
use super::common::*;
use crate::framework::{Prop, RunOut, Tier, Violation};
use crate::gen::{CommitSched, Gen, Profile};
use crate::inst::{Instance, Resp};
use crate::obs::Depth;
use crate::ops::*;
use crate::rng::Rng;
use crate::world::{Saved, World};
use serde_json::{json, Value};
use std::cell::RefCell;
use std::rc::Rc;

pub struct C04;

fn profile(rng: &mut Rng) -> Profile {
    let mut p = Profile::default();
    p.blocks = (5, 16);
    p.txs = (1, 4);
    p.commit = CommitSched::Every(rng.range(1, 3));
    p.p_reorg = (1, 4);
    p.p_mine = (1, 8);
    p.p_restart = (1, 12);
    p.w_spin = 0;
    p.commit_after_init = (3, 4);
    p.signed_chaos = rng.chance(1, 2);
    p.reorg_back = vec![(1, 6), (2, 5), (3, 3), (5, 2), (9, 2), (10, 3)];
    p
}

fn writes(op: &Op) -> bool {
    !matches!(op, Op::Read(_) | Op::Bad(_) | Op::ClearCaches)
}

#[derive(Clone, Debug)]
struct Point {
    op: usize,
    k: usize,
    site: &'static str,
}

fn count_pass(sc: &Scenario) -> (Vec<Point>, World) {
    let mut a = World::new(Instance::fresh_seeded("c04-count", sc.hash_seed), sc.config.clone());
    let mut points = vec![];
    for (i, op) in sc.ops.iter().enumerate() {
        if !writes(op) {
            a.exec(i, op);
            continue;
        }
        let sites: Rc<RefCell<Vec<&'static str>>> = Rc::new(RefCell::new(vec![]));
        let s2 = sites.clone();
        brc20_prog::verif::set_failpoint(Some(Box::new(move |site| {
            s2.borrow_mut().push(site);
            Ok(())
        })));
        a.exec(i, op);
        brc20_prog::verif::set_failpoint(None);
        for (k, site) in sites.borrow().iter().enumerate() {
            points.push(Point { op: i, k, site });
        }
    }
    (points, a)
}

fn select(points: &[Point], ops: &[Op], rng: &mut Rng, all: bool, budget: usize) -> Vec<Point> {
    if all || points.len() <= budget {
        return points.to_vec();
    }
    // tier 1: the un-versioned per-height block tables (index, block, raw block) are written one after the other
    // and nothing but their order keeps them consistent: every write to them inside a reorg, and inside one commit
    // of the history, is a crash point (they are few); thinned only beyond half of the budget
    let mut tier1: Vec<usize> = (0..points.len()).filter(|i| points[*i].site.starts_with("block.db") && matches!(ops[points[*i].op], Op::Reorg { .. })).collect();
    let commits: Vec<usize> = {
        let mut c: Vec<usize> = points.iter().filter(|p| p.site.starts_with("block.db") && !matches!(ops[p.op], Op::Reorg { .. })).map(|p| p.op).collect();
        c.dedup();
        c
    };
    if !commits.is_empty() {
        let focus = commits[rng.below(commits.len() as u64) as usize];
        tier1.extend((0..points.len()).filter(|i| points[*i].op == focus && points[*i].site.starts_with("block.db")));
    }
    while tier1.len() > budget / 2 {
        let j = rng.below(tier1.len() as u64) as usize;
        tier1.remove(j);
    }
    let mut keep = vec![false; points.len()];
    // tier 2: first / last write of every op, the writes next to a change of site, and the 2nd and 3rd write of a
    // run of writes to the same kind of table (inside the loops over keys / blocks)
    for i in 0..points.len() {
        let first_of_op = i == 0 || points[i - 1].op != points[i].op;
        let last_of_op = i + 1 == points.len() || points[i + 1].op != points[i].op;
        let boundary = i > 0 && points[i - 1].site != points[i].site;
        let run_pos = (0..=i).rev().take_while(|j| points[*j].site == points[i].site && points[*j].op == points[i].op).count();
        if first_of_op || last_of_op || boundary || run_pos == 2 || run_pos == 3 {
            keep[i] = true;
        }
    }
    let mut idx: Vec<usize> = (0..points.len()).filter(|i| keep[*i] && !tier1.contains(i)).collect();
    // thin the second tier if it exceeds what is left of the budget, then fill up randomly
    let rest = budget - tier1.len();
    while idx.len() > rest {
        let j = rng.below(idx.len() as u64) as usize;
        idx.remove(j);
    }
    idx.extend(tier1);
    let mut tries = 0;
    while idx.len() < budget && tries < 10 * budget {
        let j = rng.below(points.len() as u64) as usize;
        if !idx.contains(&j) {
            idx.push(j);
        }
        tries += 1;
    }
    idx.sort();
    idx.dedup();
    idx.into_iter().map(|i| points[i].clone()).collect()
}

/// run the history in a child process that calls _exit(137) inside the failpoint at (op, k); returns the
/// key/value dump of what it left on disk
fn real_kill_image(sc: &Scenario, pt: &Point) -> Result<(std::path::PathBuf, std::collections::BTreeMap<String, String>), String> {
    let dir = crate::inst::fresh_dir("c04-kill");
    let case_path = dir.with_extension("case.json");
    std::fs::write(&case_path, serde_json::to_string(&case_of(sc)).unwrap_or_default()).map_err(|e| e.to_string())?;
    let exe = std::env::current_exe().map_err(|e| e.to_string())?;
    let st = std::process::Command::new(exe)
        .args(["c04-child", &case_path.to_string_lossy(), &pt.op.to_string(), &pt.k.to_string(), &dir.to_string_lossy()])
        .stdout(std::process::Stdio::null())
        .stderr(std::process::Stdio::null())
        .status()
        .map_err(|e| e.to_string())?;
    let _ = std::fs::remove_file(&case_path);
    if st.code() != Some(137) {
        let _ = std::fs::remove_dir_all(&dir);
        return Err(format!("child did not die at the crash point: {:?}", st));
    }
    let dump = crate::props::c10::dump_dir(&dir);
    Ok((dir, dump))
}

/// `sim c04-child <case> <op> <k> <dir>`: execute the history on `dir` and die for real at write k of op
pub fn child_main(case_path: &str, op_idx: usize, k: usize, dir: &str) -> i32 {
    let Ok(s) = std::fs::read_to_string(case_path) else { return 2 };
    let Ok(case) = serde_json::from_str::<Value>(&s) else { return 2 };
    let sc = scenario_of(&case);
    setup(&sc);
    brc20_prog::verif::simhash::set_seed(sc.hash_seed);
    let Ok(mut inst) = Instance::open(std::path::Path::new(dir)) else { return 2 };
    inst.hash_seed = Some(sc.hash_seed);
    let mut w = World::new(inst, sc.config.clone());
    for (i, op) in sc.ops.iter().enumerate().take(op_idx) {
        w.exec(i, op);
    }
    let hits = Rc::new(RefCell::new(0usize));
    let h2 = hits.clone();
    brc20_prog::verif::set_failpoint(Some(Box::new(move |_site| {
        let mut h = h2.borrow_mut();
        if *h >= k {
            // no destructors, no flush: the process is gone
            unsafe { libc::_exit(137) };
        }
        *h += 1;
        Ok(())
    })));
    w.exec(op_idx, &sc.ops[op_idx]);
    0
}

fn check_point(sc: &Scenario, pt: &Point, stats: &mut crate::world::Stats, validate_kill: bool) -> Option<Violation> {
    let mut b = World::new(Instance::fresh_seeded("c04-crash", sc.hash_seed), sc.config.clone());
    for (i, op) in sc.ops.iter().enumerate().take(pt.op) {
        b.exec(i, op);
    }
    let pre: Saved = b.save();
    let op = &sc.ops[pt.op];
    let hits = Rc::new(RefCell::new(0usize));
    let (h2, k) = (hits.clone(), pt.k);
    brc20_prog::verif::set_failpoint(Some(Box::new(move |_site| {
        let mut h = h2.borrow_mut();
        let n = *h;
        *h += 1;
        if n >= k {
            Err("verif: injected process death".to_string())
        } else {
            Ok(())
        }
    })));
    let rs = b.exec(pt.op, op);
    brc20_prog::verif::set_failpoint(None);
    let detail = |extra: Value| json!({"crash": {"op": pt.op, "op_kind": op.kind_name(), "write_index": pt.k, "site": pt.site}, "committed_before": pre.committed, "height_before": pre.height, "max_finalised": pre.max_finalised, "more": extra});
    if let Some(p) = any_panic(&rs) {
        return Some(Violation::new(format!("panic-on-write-error/{}", pt.site), detail(json!({"panic": p}))));
    }
    if *hits.borrow() <= pt.k {
        return Some(Violation::new("harness/write-count-changed", detail(json!({"hits": *hits.borrow()}))));
    }
    // the process is dead: only the directory survives
    let uni = b.uni.clone();
    b.inst.close();
    let mut model_differs: Option<Value> = None;
    if validate_kill {
        // crash-model validation: a child process that really dies (_exit inside the failpoint) at the same
        // write should leave the same key/value content in every table. Where it does not, the simulated crash is
        // only a model: what the dead process really left behind is what has to be recoverable, so the checks below
        // run on that directory instead
        let image = crate::props::c10::dump_dir(&b.inst.dir);
        match real_kill_image(sc, pt) {
            Ok((kdir, killed)) => {
                stats.bump("real_kill_images_compared");
                if killed != image {
                    let mut keys: Vec<&String> = image.keys().chain(killed.keys()).collect();
                    keys.sort();
                    keys.dedup();
                    let diffs: Vec<Value> = keys.iter().filter(|k| image.get(**k) != killed.get(**k)).take(4).map(|k| json!({"row": k, "simulated": image.get(*k).map(|s| s.len()), "real_kill": killed.get(*k).map(|s| s.len())})).collect();
                    model_differs = Some(json!({"crash": {"op": pt.op, "write_index": pt.k, "site": pt.site}, "rows": diffs}));
                    let _ = std::fs::remove_dir_all(&b.inst.dir);
                    if let Err(e) = std::fs::rename(&kdir, &b.inst.dir) {
                        return Some(Violation::new("harness/real-kill-child", json!({"error": e.to_string()})));
                    }
                    stats.bump("real_kill_images_checked_instead_of_the_model");
                } else {
                    let _ = std::fs::remove_dir_all(&kdir);
                }
            }
            Err(e) => return Some(Violation::new("harness/real-kill-child", json!({"error": e}))),
        }
    }
    let on_real_image = model_differs.is_some();
    let detail = |extra: Value| {
        let mut d = detail(extra);
        if on_real_image {
            d["image"] = json!("left behind by a process that was really killed at this write (it differs from the simulated crash)");
        }
        d
    };
    if let Err(e) = b.inst.reopen() {
        return Some(Violation::new(format!("cannot-reopen-after-crash/{}", pt.site), detail(json!({"error": e}))));
    }
    let inside = match op {
        Op::Commit | Op::Restart { commit_first: true } => "commit",
        Op::Reorg { .. } => "reorg",
        _ => "finalise",
    };
    stats.bump(&format!("crash_in_{}__{}", inside, pt.site));
    // liveness
    match b.inst.call("eth_blockNumber", json!([])) {
        Resp::Ok(_) => {}
        other => return Some(Violation::new("reopened-instance-not-serving", detail(json!({"resp": other.to_value()})))),
    }
    let m = pre.max_finalised;
    match inside {
        "finalise" => {
            // crash outside commit/reorg: exactly the state of the last successful commit
            let mut fresh = match pre.committed {
                Some(c) => fresh_replay(&pre.chain, c, "c04-fresh"),
                None => Instance::fresh("c04-empty"),
            };
            for c in &pre.committed_parked {
                let _ = fresh.call(&c.method, c.params.clone());
            }
            if let Some((kind, d)) = compare(&mut b.inst, &mut fresh, &uni, Depth::Full) {
                return Some(Violation::new(format!("crash-outside-commit-lost-more-than-uncommitted/{kind}"), detail(json!({"diff(reopened,replay-to-last-commit)": d}))));
            }
            stats.bump("images_checked_outside_commit");
        }
        _ => {
            // durable heights: everything up to the last completed commit, not above the reorg target in progress
            let target_in_progress = match op {
                Op::Reorg { back } => pre.height.map(|h| (h as i64 - *back).max(0) as u64),
                _ => None,
            };
            let Some(c) = pre.committed else {
                stats.bump("images_without_durable_height");
                return None;
            };
            let hi = target_in_progress.map_or(c, |t| t.min(c));
            let lo = m.map_or(0, |m| m.saturating_sub(10));
            if hi < lo {
                stats.bump("images_without_durable_height_in_window");
                return None;
            }
            let mut hs = vec![hi];
            if hi > lo && (pt.k % 3 == 0) {
                hs.push(lo + (pt.k as u64 % (hi - lo)));
            }
            let reported = match b.inst.call("eth_blockNumber", json!([])) {
                Resp::Ok(v) => crate::world::hex_u64(&v).unwrap_or(0),
                _ => 0,
            };
            // a sample dies a second time, inside the repairing reorg itself, and is reopened again
            if pt.k % 5 == 1 {
                let j = (pt.k / 5) % 9;
                let hits2 = Rc::new(RefCell::new(0usize));
                let h3 = hits2.clone();
                brc20_prog::verif::set_failpoint(Some(Box::new(move |_site| {
                    let mut h = h3.borrow_mut();
                    let n = *h;
                    *h += 1;
                    if n >= j {
                        Err("verif: injected process death (second)".to_string())
                    } else {
                        Ok(())
                    }
                })));
                let r = b.inst.call("brc20_reorg", json!({"latest_valid_block_number": hi}));
                brc20_prog::verif::set_failpoint(None);
                if let Resp::Panic(p) = &r {
                    return Some(Violation::new(format!("repairing-reorg-panicked-on-write-error/{inside}/{}", pt.site), detail(json!({"reorg_to": hi, "second_crash_at_write": j, "panic": p}))));
                }
                b.inst.close();
                if let Err(e) = b.inst.reopen() {
                    return Some(Violation::new(format!("cannot-reopen-after-second-crash/{inside}/{}", pt.site), detail(json!({"reorg_to": hi, "second_crash_at_write": j, "error": e}))));
                }
                stats.bump(if *hits2.borrow() > j { "second_crash_inside_repairing_reorg" } else { "second_crash_after_repairing_reorg" });
            }
            for (n, h) in hs.iter().enumerate() {
                let r = b.inst.call("brc20_reorg", json!({"latest_valid_block_number": h}));
                match &r {
                    Resp::Ok(_) => {}
                    Resp::Panic(p) => return Some(Violation::new(format!("repairing-reorg-panicked/{inside}/{}", pt.site), detail(json!({"reorg_to": h, "reported_height": reported, "panic": p})))),
                    Resp::Err { .. } => return Some(Violation::new(format!("repairing-reorg-refused/{inside}/{}", pt.site), detail(json!({"reorg_to": h, "reported_height": reported, "resp": r.to_value()})))),
                }
                let mut fresh = fresh_replay(&pre.chain, *h, "c04-fresh");
                if let Some((kind, d)) = compare(&mut b.inst, &mut fresh, &uni, Depth::Full) {
                    return Some(Violation::new(
                        format!("state-after-repairing-reorg/{inside}/{}/{kind}", pt.site),
                        detail(json!({"reorg_to": h, "reported_height_after_reopen": reported, "diff(repaired,fresh-replay)": d})),
                    ));
                }
                // a sample is extended on both sides
                if pt.k % 4 == 0 && n == 0 {
                    let mut st = pre.clone();
                    st.open = None;
                    b.restore(st);
                    b.uni = uni.clone();
                    // bookkeeping as of height h
                    b.chain.retain(|x| x.height <= *h);
                    b.snapshots.retain(|x, _| *x <= *h);
                    b.book = b.snapshots.get(h).cloned().unwrap_or_default();
                    b.height = Some(*h);
                    b.committed = Some(*h);
                    let mut twin = b.twin(fresh);
                    let prof = Profile { txs: (1, 3), w_spin: 0, ..Profile::default() };
                    let mut g = Gen::new(Rng::new(sc.hash_seed ^ pt.k as u64).derive("ext"), &prof);
                    for e in 0..2u32 {
                        let mut blk = g.block(true);
                        if let Op::Block { txs, hash, .. } = &mut blk {
                            for (q, t) in txs.iter_mut().enumerate() {
                                t.id = 5_000_000 + (pt.k as u32) * 100 + e * 10 + q as u32;
                            }
                            *hash = HashMode::Explicit(6_000_000 + (pt.k as u32) * 10 + e);
                        }
                        let ra: Vec<Value> = b.exec(pt.op, &blk).iter().map(|r| r.to_value()).collect();
                        let rb: Vec<Value> = twin.exec(pt.op, &blk).iter().map(|r| r.to_value()).collect();
                        if ra != rb {
                            return Some(Violation::new(format!("extension-after-repair-differs/{inside}/{}", pt.site), detail(json!({"reorg_to": h, "repaired": ra.iter().map(trunc).collect::<Vec<_>>(), "fresh": rb.iter().map(trunc).collect::<Vec<_>>()}))));
                        }
                    }
                    let mut u2 = b.uni.clone();
                    u2.merge(&twin.uni);
                    if let Some((kind, d)) = compare(&mut b.inst, &mut twin.inst, &u2, Depth::Full) {
                        return Some(Violation::new(format!("state-after-extension-of-repaired/{inside}/{}/{kind}", pt.site), detail(json!({"reorg_to": h, "diff": d}))));
                    }
                    stats.bump("images_extended");
                    break;
                }
            }
            stats.bump(&format!("images_repaired_and_compared_{inside}"));
            if reported == hi {
                stats.bump("probe_repairing_reorg_was_noop_height");
            }
        }
    }
    if let Some(d) = model_differs {
        // recoverable, but the crash model needs attention
        return Some(Violation::new("harness/crash-model-differs-from-real-kill", d));
    }
    None
}

impl Prop for C04 {
    fn id(&self) -> &'static str {
        "C04"
    }
    fn level(&self) -> &'static str {
        "fault_enumeration"
    }
    fn runs(&self, tier: Tier) -> u64 {
        match tier {
            Tier::Quick => 16,
            Tier::Thorough => 96,
        }
    }
    fn budget_s(&self, tier: Tier) -> u64 {
        match tier {
            Tier::Quick => 400,
            Tier::Thorough => 3000,
        }
    }
    fn hang_timeout_s(&self) -> u64 {
        // one run enumerates every crash point of its history and reports only at the end
        5400
    }
    fn generate(&self, seed: u64, tier: Tier) -> Value {
        let rng = Rng::new(seed);
        let p = profile(&mut rng.derive("profile"));
        let mut g = Gen::new(rng.derive("workload"), &p);
        let mut v = case_of(&g.scenario());
        v["select_seed"] = json!(rng.derive("select").next());
        v["all_points"] = json!(tier == Tier::Thorough);
        v["budget"] = json!(if tier == Tier::Quick { 80 } else { 100000 });
        // every n-th crash point is cross-checked against a real process kill
        v["real_kill_every"] = json!(if tier == Tier::Quick { 12 } else { 9 });
        v
    }
    fn rule(&self) -> String {
        "case = one seeded history (commit every 1-3 blocks, reorgs, restarts) + a set of crash points. A first fault-free pass counts every persistent write (failpoint before each RocksDB put/delete/flush of commitToDatabase, reorg and block finalisation); then for each selected (op, write index) the history is re-executed on a fresh directory, the process 'dies' at that write (it and every later write fail, the instance is dropped) and the directory is reopened. Oracle: crash in finalisation => obs == fresh replay to the last commit; crash in commit/reorg => brc20_reorg(H) for H = min(last committed height, reorg target in progress) (plus a deeper H for a sample) must be accepted and obs == fresh replay to H, a sample is then extended by 2 blocks on both sides; every fifth image dies a second time at write 0-8 of the repairing reorg and is reopened before the repair is attempted again. quick: up to 80 points per history - every write to the un-versioned block tables inside reorgs and inside one commit (up to half of the budget), then first/last write of every op, site changes and the 2nd/3rd write of every run of same-kind writes, then random fill; thorough: every write index. evaluations = crash images checked is reported in events; distinct = sha256 of op list; non-trivial = at least one image inside a commit or reorg was repaired and compared".into()
    }
    fn assumptions(&self) -> Vec<String> {
        vec![
            "crash model = process death: writes completed before the crash point survive (RocksDB WAL write per put), later ones do not; machine crash with lost page cache is not modelled".into(),
            "the crash is simulated by failing the write and all later writes and dropping the instance; every 12th (quick) / 9th (thorough) crash point is cross-checked against a real _exit in a child process, and where the two images differ the recovery checks run on what the killed process really left behind".into(),
            {
                // persistent writes that carry no failpoint (tools/check_failpoints.py) are not crash points here
                let p = format!("{}/shadow/unhooked_writes.json", crate::framework::verif_root());
                let n: Vec<String> = std::fs::read_to_string(p).ok().and_then(|s| serde_json::from_str(&s).ok()).unwrap_or_default();
                if n.is_empty() {
                    "every persistent write of the storage components carries a failpoint (checked at build time)".to_string()
                } else {
                    format!("WARNING: {} persistent write(s) carry no failpoint and are not enumerated as crash points: {}", n.len(), n.join("; "))
                }
            },
        ]
    }
    fn shrink(&self, _case: &Value) -> Vec<Value> {
        vec![]
    }
    fn evaluations_from(&self) -> Option<&'static str> {
        Some("crash_images")
    }
    fn refine_case(&self, case: &Value, v: &Violation) -> Value {
        // the replay file re-executes only the failing crash point
        let mut c = case.clone();
        if let Some(p) = v.detail.get("only_point") {
            c["only_point"] = p.clone();
        }
        c
    }
    fn execute(&self, case: &Value) -> RunOut {
        let sc = scenario_of(case);
        setup(&sc);
        let timer = Timer::start();
        let (points, a) = count_pass(&sc);
        let mut stats = a.stats.clone();
        let digest = ops_digest(&sc);
        let log_digest = transcript_digest(&[a.log.as_slice()]);
        drop(a);
        let only: Option<(usize, usize)> = case.get("only_point").and_then(|p| Some((p[0].as_u64()? as usize, p[1].as_u64()? as usize)));
        let mut rng = Rng::new(case["select_seed"].as_u64().unwrap_or(1));
        let selected = match only {
            Some((o, k)) => points.iter().filter(|p| p.op == o && p.k == k).cloned().collect(),
            None => select(&points, &sc.ops, &mut rng, case["all_points"].as_bool().unwrap_or(false), case["budget"].as_u64().unwrap_or(36) as usize),
        };
        stats.add("persistent_writes_counted", points.len() as u64);
        if std::env::var("VERIF_C04_DUMP").is_ok() {
            for p in &points {
                eprintln!("point op={} {} k={} site={}", p.op, sc.ops[p.op].kind_name(), p.k, p.site);
            }
        }
        let mut violation = None;
        let mut sites = std::collections::BTreeSet::new();
        for pt in &selected {
            stats.bump("crash_images");
            sites.insert(pt.site);
            let validate_kill = case["real_kill_every"].as_u64().map_or(false, |n| n > 0 && (pt.k as u64 + pt.op as u64) % n == 0);
            if let Some(mut v) = check_point(&sc, pt, &mut stats, validate_kill) {
                v.detail["only_point"] = json!([pt.op, pt.k]);
                violation = Some(v);
                break;
            }
        }
        let nontrivial = stats.counts.keys().any(|k| k.starts_with("images_repaired_and_compared"));
        RunOut {
            digest,
            nontrivial,
            stats,
            sim_ms: timer.elapsed(),
            violation,
            transcript: format!("{}-{}", log_digest, selected.len()),
            states: sites.iter().map(|s| s.to_string()).collect(),
        }
    }
}
