//! C07 - the BRC20 bridge ledger is conserved and only the indexer can mint or burn.
use super::common::*;
use crate::framework::{Prop, RunOut, Tier, Violation};
use crate::gen::Gen;
use crate::gen::Profile;
use crate::inst::{Instance, Resp, SimConfig};
use crate::ops::*;
use crate::rng::Rng;
use crate::world::{addr_str, amount, ctl, erc, hex_u64, pk_addr, pkscript, World, CONTROLLER, N_PK, N_SIGNERS, TICKERS};
use alloy::primitives::{Address, U256};
use alloy_sol_types::SolCall;
use serde_json::{json, Value};
use std::collections::BTreeMap;

pub struct C07;

/// reference ledger: plain maps, updated from the inputs of operations that reported success
#[derive(Clone, Default, Debug)]
struct Ledger {
    /// (lower-cased ticker, holder) -> balance
    bal: BTreeMap<(String, Address), U256>,
    supply: BTreeMap<String, U256>,
    exists: BTreeMap<String, bool>,
}

impl Ledger {
    fn b(&self, t: &str, a: &Address) -> U256 {
        self.bal.get(&(t.to_string(), *a)).cloned().unwrap_or(U256::ZERO)
    }
    fn s(&self, t: &str) -> U256 {
        self.supply.get(t).cloned().unwrap_or(U256::ZERO)
    }
}

fn gen_erc_tx(g: &mut Gen) -> TxKind {
    let rng = &mut g.rng;
    let sender_is_signer = rng.chance(1, 4);
    let ticker = if rng.chance(4, 5) { rng.below(4) as u8 } else { rng.below(8) as u8 };
    let who = |rng: &mut Rng| match rng.below(10) {
        0..=5 => Who::Pk(rng.below(4) as u8),
        6..=7 => Who::Signer(rng.below(3) as u8),
        8 => Who::Contract(rng.below(3) as u8),
        _ => {
            if rng.chance(1, 2) {
                Who::Zero
            } else {
                Who::Indexer
            }
        }
    };
    let amt = |rng: &mut Rng| match rng.below(12) {
        0 => Amount::Small(0),
        1 => Amount::Max,
        2 => Amount::MaxMinus(rng.below(3)),
        3..=7 => Amount::Small(rng.range(1, 20)),
        _ => Amount::Small(rng.range(1, 2000)),
    };
    let call = match rng.below(20) {
        0..=8 => Erc::Transfer { to: who(rng), amount: amt(rng) },
        9..=10 => Erc::Approve { spender: who(rng), amount: amt(rng) },
        11..=14 => Erc::TransferFrom { from: who(rng), to: who(rng), amount: amt(rng) },
        15 => Erc::Mint { to: who(rng), amount: amt(rng) },
        16 => Erc::Burn { from: who(rng), amount: amt(rng) },
        17 => Erc::OwnerApprove { owner: who(rng), spender: who(rng), amount: amt(rng) },
        18 => Erc::OwnerTransferFrom { spender: who(rng), from: who(rng), to: who(rng), amount: amt(rng) },
        _ => Erc::Approve { spender: who(rng), amount: Amount::Max },
    };
    let (target, data) = if rng.chance(3, 4) { (Target::Controller, Cd::Ctl { ticker, call }) } else { (Target::Token(ticker), Cd::Tok(call)) };
    // sometimes through a user contract (caller becomes the contract)
    let (target, data) = if rng.chance(1, 6) {
        (Target::Contract(rng.below(3) as u8), Cd::CallOther { kind: if rng.chance(1, 5) { 1 } else { 0 }, target, inner: Box::new(data) })
    } else {
        (target, data)
    };
    if sender_is_signer {
        TxKind::Transact { signer: rng.below(3) as u8, nonce: NonceSpec::Rel(0), to: Some(target), data, deploy: None, chain_ok: true }
    } else {
        TxKind::Call { sender: rng.below(4) as u8, target, by_inscription: false, data }
    }
}

fn gen_case(rng: &Rng) -> Scenario {
    let mut p = Profile::default();
    p.w_spin = 0;
    let mut g = Gen::new(rng.derive("workload"), &p);
    let network = g.rng.pick(&["signet", "regtest", "mainnet", "testnet4"]).to_string();
    let mut ops = vec![Op::Init { hash: g.hash_mode() }, Op::Commit];
    // user contracts (possible holders / intermediaries) are deployed once, up front, so that
    // Contract(k) means the same address throughout a block
    ops.push(Op::Block {
        ts: 5,
        hash: g.hash_mode(),
        txs: vec![
            Tx { id: 3, kind: TxKind::Deploy { sender: 0, prog: DeployProg::Store }, len: LenPolicy::Generous, enc: Enc::Hex },
            Tx { id: 4, kind: TxKind::Deploy { sender: 1, prog: DeployProg::Store }, len: LenPolicy::Generous, enc: Enc::Hex },
        ],
        finalise: true,
    });
    ops.push(Op::Commit);
    let mut id = 10u32;
    let n_blocks = g.rng.range(5, 22);
    for _ in 0..n_blocks {
        let n = g.rng.range(1, 5);
        let mut txs = vec![];
        for _ in 0..n {
            id += 1;
            let kind = match g.rng.below(20) {
                0..=6 => TxKind::Deposit { to: Who::Pk(g.rng.below(4) as u8), ticker: g.ticker(), amount: {
                    match g.rng.below(14) { 0 => Amount::Small(0), 1 => Amount::Max, 2 => Amount::MaxMinus(g.rng.below(3)), _ => Amount::Small(g.rng.range(1, 3000)) }
                } },
                7..=9 => TxKind::Withdraw { from: Who::Pk(g.rng.below(4) as u8), ticker: g.ticker(), amount: {
                    match g.rng.below(10) { 0 => Amount::Small(0), 1 => Amount::Max, _ => Amount::Small(g.rng.range(1, 2500)) }
                } },
                _ => gen_erc_tx(&mut g),
            };
            txs.push(Tx { id, kind, len: LenPolicy::Generous, enc: g.enc() });
        }
        // value round trips inside one block (a slot written twice, ending at its value before the block)
        if g.rng.chance(1, 4) {
            let pk = g.rng.below(4) as u8;
            let ticker = g.rng.below(4) as u8;
            let amt = Amount::Small(g.rng.range(1, 500));
            if g.rng.chance(1, 2) {
                id += 2;
                txs.push(Tx { id: id - 1, kind: TxKind::Deposit { to: Who::Pk(pk), ticker, amount: amt.clone() }, len: LenPolicy::Generous, enc: Enc::Hex });
                txs.push(Tx { id, kind: TxKind::Withdraw { from: Who::Pk(pk), ticker, amount: amt }, len: LenPolicy::Generous, enc: Enc::Hex });
            } else {
                let other = (pk + 1 + g.rng.below(3) as u8) % 4;
                id += 2;
                txs.push(Tx { id: id - 1, kind: TxKind::Call { sender: pk, target: Target::Token(ticker), by_inscription: false, data: Cd::Tok(Erc::Transfer { to: Who::Pk(other), amount: amt.clone() }) }, len: LenPolicy::Generous, enc: Enc::Hex });
                txs.push(Tx { id, kind: TxKind::Call { sender: other, target: Target::Token(ticker), by_inscription: false, data: Cd::Tok(Erc::Transfer { to: Who::Pk(pk), amount: amt }) }, len: LenPolicy::Generous, enc: Enc::Hex });
            }
        }
        let ts = 10 + id as u64;
        ops.push(Op::Block { ts, hash: g.hash_mode(), txs, finalise: true });
        if g.rng.chance(1, 4) {
            ops.push(Op::Commit);
        }
        if g.rng.chance(1, 8) {
            ops.push(Op::Reorg { back: *g.rng.pick(&[1i64, 1, 2, 3, 5, 9, 10]) });
        }
        if g.rng.chance(1, 20) {
            ops.push(Op::ClearCaches);
        }
        if g.rng.chance(1, 20) {
            ops.push(Op::Restart { commit_first: g.rng.chance(1, 2) });
        }
    }
    Scenario { config: SimConfig { network, traces: g.rng.chance(1, 2), ..SimConfig::default() }, hash_seed: g.rng.next(), ops }
}

fn lower(t: u8) -> String {
    TICKERS[t as usize % TICKERS.len()].to_lowercase()
}

/// the top-level ledger call of a transaction, with the address that ends up as msg.sender
fn ledger_call<'a>(w: &World, sender: Address, target: &'a Target, data: &'a Cd) -> Option<(Address, &'a Target, &'a Cd, bool)> {
    match data {
        Cd::Ctl { .. } | Cd::Tok(_) => Some((sender, target, data, false)),
        Cd::CallOther { kind, target: t2, inner } => {
            // only through a live Store contract does the inner call happen at all
            let Target::Contract(k) = target else { return None };
            if w.book.contracts.is_empty() {
                return None;
            }
            let c = &w.book.contracts[*k as usize % w.book.contracts.len()];
            if c.kind != "store" {
                return None;
            }
            let via = crate::world::parse_addr(&c.addr);
            match inner.as_ref() {
                Cd::Ctl { .. } | Cd::Tok(_) => Some((via, t2, inner.as_ref(), *kind == 1)),
                _ => None,
            }
        }
        _ => None,
    }
}

/// apply the effect of a *successful* ledger call; Err = the success itself contradicts the ledger
fn apply(w: &World, l: &mut Ledger, msg_sender: Address, target: &Target, data: &Cd, is_static: bool) -> Result<(), String> {
    let (ticker, call) = match (target, data) {
        (Target::Controller, Cd::Ctl { ticker, call }) => (lower(*ticker), call),
        (Target::Token(t), Cd::Tok(call)) => (lower(*t), call),
        _ => return Ok(()),
    };
    if !l.exists.get(&ticker).cloned().unwrap_or(false) {
        // no such token: a controller call reverts; a "token-level" call hit an address without code
        return Ok(());
    }
    let mv = |l: &mut Ledger, from: Address, to: Address, v: U256| -> Result<(), String> {
        let fb = l.b(&ticker, &from);
        if fb < v {
            return Err(format!("a transfer of {v} from {from} succeeded although the ledger balance is {fb}"));
        }
        if to == Address::ZERO {
            return Err("a transfer to the zero address succeeded".into());
        }
        l.bal.insert((ticker.clone(), from), fb - v);
        let tb = l.b(&ticker, &to);
        l.bal.insert((ticker.clone(), to), tb + v);
        Ok(())
    };
    match call {
        Erc::Transfer { to, amount: a } => {
            if is_static {
                return Err("a state-changing call succeeded inside STATICCALL".into());
            }
            mv(l, msg_sender, w.who_addr(to), amount(a))
        }
        Erc::TransferFrom { from, to, amount: a } => {
            if is_static {
                return Err("a state-changing call succeeded inside STATICCALL".into());
            }
            mv(l, w.who_addr(from), w.who_addr(to), amount(a))
        }
        // on the controller the "owner" variants are encoded as the plain calls (it has no overloads)
        Erc::OwnerTransferFrom { from, to, amount: a, .. } if matches!(target, Target::Controller) => {
            if is_static {
                return Err("a state-changing call succeeded inside STATICCALL".into());
            }
            mv(l, w.who_addr(from), w.who_addr(to), amount(a))
        }
        // approvals do not move tokens; mint/burn/owner overloads by users must never take effect:
        // the ledger stays as it is and the balance comparison decides
        _ => Ok(()),
    }
}

fn eth_call_u256(w: &mut World, to: &str, data: Vec<u8>) -> Option<U256> {
    match w.inst.call("eth_call", json!([{"from": crate::world::DEAD, "to": to, "data": crate::world::hex0x(&data)}])) {
        Resp::Ok(Value::String(s)) => {
            let b = hex::decode(s.trim_start_matches("0x")).ok()?;
            if b.len() < 32 {
                return None;
            }
            Some(U256::from_be_slice(&b[..32]))
        }
        _ => None,
    }
}

fn holders(w: &World) -> Vec<Address> {
    let mut v: Vec<Address> = (0..N_PK).map(pk_addr).collect();
    v.extend((0..N_SIGNERS).map(|i| crate::world::signer(i).address()));
    v.extend(w.book.contracts.iter().map(|c| crate::world::parse_addr(&c.addr)));
    v.push(crate::world::parse_addr(crate::world::INDEXER));
    v.push(crate::world::parse_addr(CONTROLLER));
    v.push(crate::world::parse_addr(crate::world::DEAD));
    v.extend(w.book.tokens.values().map(|a| crate::world::parse_addr(a)));
    v.sort();
    v.dedup();
    v
}

fn check_ledger(w: &mut World, l: &Ledger, at: &str) -> Option<Violation> {
    let tickers: Vec<String> = l.exists.keys().cloned().collect();
    for t in tickers {
        // bridge view, case-insensitive
        for variant in TICKERS.iter().filter(|x| x.to_lowercase() == t) {
            for i in 0..N_PK {
                let r = w.inst.call("brc20_balance", json!({"pkscript": pkscript(i), "ticker": variant}));
                let got = match &r {
                    Resp::Ok(Value::String(s)) => U256::from_str_radix(s.trim_start_matches("0x"), 16).ok(),
                    _ => None,
                };
                let want = l.b(&t, &pk_addr(i));
                if got != Some(want) {
                    return Some(Violation::new("bridge-balance-differs-from-ledger", json!({"at": at, "ticker": variant, "holder_pk": i, "brc20_balance": r.to_value(), "ledger": format!("0x{:x}", want)})));
                }
            }
        }
        let hs = holders(w);
        let mut sum = U256::ZERO;
        let tb = t.as_bytes().to_vec();
        for h in &hs {
            let data = ctl::balanceOfCall::new((tb.clone().into(), *h)).abi_encode();
            let got = eth_call_u256(w, CONTROLLER, data);
            let want = l.b(&t, h);
            if got != Some(want) {
                return Some(Violation::new("holder-balance-differs-from-ledger", json!({"at": at, "ticker": t, "holder": addr_str(h), "balanceOf": got.map(|x| format!("0x{:x}", x)), "ledger": format!("0x{:x}", want)})));
            }
            sum = sum.saturating_add(want);
        }
        if let Some(tok) = w.book.tokens.get(&t).cloned() {
            let ts = eth_call_u256(w, &tok, erc::totalSupplyCall::new(()).abi_encode());
            if ts != Some(l.s(&t)) || ts != Some(sum) {
                return Some(Violation::new("total-supply-not-sum-of-balances", json!({"at": at, "ticker": t, "totalSupply": ts.map(|x| format!("0x{:x}", x)), "ledger_supply": format!("0x{:x}", l.s(&t)), "sum_of_ledger_balances": format!("0x{:x}", sum)})));
            }
        }
    }
    None
}

impl Prop for C07 {
    fn id(&self) -> &'static str {
        "C07"
    }
    fn runs(&self, tier: Tier) -> u64 {
        match tier {
            Tier::Quick => 960,
            Tier::Thorough => 6000,
        }
    }
    fn generate(&self, seed: u64, _tier: Tier) -> Value {
        case_of(&gen_case(&Rng::new(seed)))
    }
    fn rule(&self) -> String {
        "case = seeded interleaving of deposits, withdrawals (incl. > balance, unknown ticker, 0, 2^256-1, supply overflow), controller and token-level transfer/approve/transferFrom by pkscript senders, signers and user contracts (CALL / STATICCALL wrappers), hostile mint/burn/owner-overload calls, tickers differing only in case, across reorgs, commits, clearCaches and restarts. Reference = plain maps updated from the inputs of operations whose receipt reports success (a success that the ledger cannot afford is itself a violation; hostile calls never change the ledger). At every block boundary: brc20_balance (all case variants) and controller.balanceOf for every known holder == ledger, token.totalSupply == ledger supply == sum of balances. distinct = sha256 of op list; non-trivial = at least one successful transfer and one failed over-withdrawal or over-transfer were checked".into()
    }
    fn assumptions(&self) -> Vec<String> {
        vec![
            "allowance sufficiency of transferFrom is not modelled (the statement speaks about balances and supply); conservation is".into(),
            "holders universe = the 4 pkscripts, 3 signers, deployed user contracts, indexer, controller, tokens and the dead address; tokens leaking elsewhere show up as supply != sum".into(),
        ]
    }
    fn shrink(&self, case: &Value) -> Vec<Value> {
        // the controller and the user contracts must stay: without them a deposit "succeeds" against
        // an address without code, which is indexer misuse and not what the property is about
        let head = case["ops"].as_array().map(|a| a.iter().take(4).cloned().collect::<Vec<_>>()).unwrap_or_default();
        crate::framework::shrink_ops(case)
            .into_iter()
            .filter(|c| c["ops"].as_array().map(|a| a.iter().take(4).cloned().collect::<Vec<_>>() == head).unwrap_or(false))
            .collect()
    }
    fn execute(&self, case: &Value) -> RunOut {
        let sc = scenario_of(case);
        setup(&sc);
        let timer = Timer::start();
        let mut w = World::new(Instance::fresh_seeded("c07", sc.hash_seed), sc.config.clone());
        let mut ledger = Ledger::default();
        let mut snaps: BTreeMap<u64, Ledger> = BTreeMap::new();
        let mut violation: Option<Violation> = None;
        let (mut ok_transfer, mut failed_over) = (false, false);

        'ops: for (i, op) in sc.ops.iter().enumerate() {
            let log_start = w.log.len();
            let height_before = w.height;
            // resolve callers before execution (bookkeeping may change during the block)
            let rs = w.exec(i, op);
            if let Some(p) = any_panic(&rs) {
                violation = Some(Violation::new("panic-in-history", json!({"op": i, "kind": op.kind_name(), "panic": p})));
                break 'ops;
            }
            match op {
                Op::Block { txs, .. } => {
                    let calls: Vec<(String, Resp)> = w.log[log_start..]
                        .iter()
                        .filter(|c| matches!(c.call.method.as_str(), "brc20_deploy" | "brc20_call" | "brc20_transact" | "brc20_deposit" | "brc20_withdraw"))
                        .map(|c| (c.call.method.clone(), c.resp.clone()))
                        .collect();
                    for (tx, (_m, resp)) in txs.iter().zip(calls.iter()) {
                        let receipt = match resp {
                            Resp::Ok(Value::Array(a)) => a.first().cloned().unwrap_or(Value::Null),
                            Resp::Ok(v) => v.clone(),
                            _ => Value::Null,
                        };
                        if receipt.is_null() {
                            continue;
                        }
                        let success = receipt.get("status").and_then(hex_u64) == Some(1);
                        match &tx.kind {
                            TxKind::Deposit { to, ticker, amount: a } => {
                                let t = lower(*ticker);
                                let v = amount(a);
                                let overflow = ledger.s(&t).checked_add(v).is_none();
                                if success == overflow {
                                    violation = Some(Violation::new(if overflow { "deposit-overflowing-supply-succeeded" } else { "valid-deposit-failed" }, json!({"op": i, "tx": tx.id, "ticker": t, "amount": format!("0x{:x}", v), "ledger_supply": format!("0x{:x}", ledger.s(&t)), "receipt_status": receipt["status"]})));
                                    break 'ops;
                                }
                                if success {
                                    let h = w.who_addr(to);
                                    let nb = ledger.b(&t, &h) + v;
                                    ledger.bal.insert((t.clone(), h), nb);
                                    let ns = ledger.s(&t) + v;
                                    ledger.supply.insert(t.clone(), ns);
                                    ledger.exists.insert(t, true);
                                }
                            }
                            TxKind::Withdraw { from, ticker, amount: a } => {
                                let t = lower(*ticker);
                                let v = amount(a);
                                let h = w.who_addr(from);
                                let can = ledger.exists.get(&t).cloned().unwrap_or(false) && ledger.b(&t, &h) >= v;
                                if success != can {
                                    violation = Some(Violation::new(if success { "withdrawal-exceeding-balance-succeeded" } else { "covered-withdrawal-failed" }, json!({"op": i, "tx": tx.id, "ticker": t, "amount": format!("0x{:x}", v), "ledger_balance": format!("0x{:x}", ledger.b(&t, &h)), "receipt_status": receipt["status"]})));
                                    break 'ops;
                                }
                                if success {
                                    let nb = ledger.b(&t, &h) - v;
                                    ledger.bal.insert((t.clone(), h), nb);
                                    let ns = ledger.s(&t) - v;
                                    ledger.supply.insert(t, ns);
                                } else if v > U256::ZERO {
                                    failed_over = true;
                                    w.stats.bump("probe_over_withdrawal_failed");
                                }
                            }
                            TxKind::Call { sender, target, data, .. } => {
                                if let Some((ms, t, d, st)) = ledger_call(&w, pk_addr(*sender % N_PK), target, data) {
                                    if success {
                                        if let Err(e) = apply(&w, &mut ledger, ms, t, d, st) {
                                            violation = Some(Violation::new("impossible-success", json!({"op": i, "tx": tx.id, "why": e, "call": trunc(&serde_json::to_value(data).unwrap_or(Value::Null))})));
                                            break 'ops;
                                        }
                                        if matches!(d, Cd::Ctl { call: Erc::Transfer { .. } | Erc::TransferFrom { .. }, .. } | Cd::Tok(Erc::Transfer { .. } | Erc::TransferFrom { .. })) {
                                            ok_transfer = true;
                                            w.stats.bump("probe_transfer_succeeded");
                                        }
                                    } else {
                                        w.stats.bump("probe_ledger_call_failed");
                                    }
                                }
                            }
                            TxKind::Transact { signer: s, to: Some(target), data, .. } => {
                                let sa = crate::world::signer(*s % N_SIGNERS).address();
                                if let Some((ms, t, d, st)) = ledger_call(&w, sa, target, data) {
                                    if success {
                                        if let Err(e) = apply(&w, &mut ledger, ms, t, d, st) {
                                            violation = Some(Violation::new("impossible-success", json!({"op": i, "tx": tx.id, "why": e})));
                                            break 'ops;
                                        }
                                        ok_transfer = true;
                                    }
                                }
                            }
                            _ => {}
                        }
                    }
                    if let Some(h) = w.height {
                        snaps.insert(h, ledger.clone());
                    }
                }
                Op::Init { .. } | Op::Mine { .. } => {
                    if let Some(h) = w.height {
                        for k in height_before.map_or(0, |x| x + 1)..=h {
                            snaps.insert(k, ledger.clone());
                        }
                    }
                }
                Op::Reorg { .. } | Op::ClearCaches | Op::Restart { .. } => {
                    // the ledger follows the chain
                    if w.height != height_before || matches!(op, Op::ClearCaches | Op::Restart { .. }) {
                        ledger = match w.height {
                            Some(h) => snaps.get(&h).cloned().unwrap_or_default(),
                            None => Ledger::default(),
                        };
                        if let Some(h) = w.height {
                            snaps.retain(|k, _| *k <= h);
                        } else {
                            snaps.clear();
                        }
                        w.stats.bump("probe_ledger_rolled_back");
                    }
                }
                _ => {}
            }
            if w.open.is_none() && w.height.is_some() && !matches!(op, Op::Commit) {
                if let Some(v) = check_ledger(&mut w, &ledger, &format!("after op {i}")) {
                    violation = Some(v);
                    break 'ops;
                }
                w.stats.bump("ledger_checks");
            }
        }
        finish(&sc, &[&w], ok_transfer && failed_over, &timer, violation)
    }
}
