//! C13 - versioned tables behave like a simple map with a 10-block undo window (component-level simulation).
use crate::framework::{sha_hex, Prop, RunOut, Tier, Violation};
use crate::inst::{fresh_dir, take_last_panic};
use crate::rng::Rng;
use crate::world::Stats;
use alloy::primitives::Address;
use brc20_prog::types::{AddressED, B256ED, U128ED, U256ED, U512ED, U64ED};
use brc20_prog::verif::{BlockCachedDatabase, BlockDatabase, BlockHistoryCache, BlockHistoryCacheData, Decode, Encode};
use serde::{Deserialize, Serialize};
use serde_json::{json, Value};
use std::collections::BTreeMap;
use std::hash::Hash;
use std::panic::{catch_unwind, AssertUnwindSafe};

pub struct C13;

#[derive(Clone, Debug, Serialize, Deserialize, PartialEq)]
pub enum TOp {
    Set { key: u8, val: u8 },
    Unset { key: u8 },
    /// finish the current block and skip `idle` further blocks
    Advance { idle: u8 },
    Commit,
    Clear,
    Reopen,
    /// roll back to (tip - back)
    Reorg { back: u8 },
    Range { a: u8, b: u8 },
    All,
}

#[derive(Clone, Debug, Serialize, Deserialize)]
pub struct TCase {
    pub table: String,
    pub hash_seed: u64,
    pub ops: Vec<TOp>,
}

const N_KEYS: u8 = 10;

fn gen_ops(rng: &mut Rng, n: usize) -> Vec<TOp> {
    let mut ops = vec![];
    for _ in 0..n {
        let op = match rng.below(40) {
            0..=13 => TOp::Set { key: rng.below(N_KEYS as u64) as u8, val: rng.below(4) as u8 },
            14..=17 => TOp::Unset { key: rng.below(N_KEYS as u64) as u8 },
            18..=25 => TOp::Advance { idle: *rng.pick(&[0u8, 0, 0, 0, 1, 2, 8, 9, 10, 11]) },
            26..=29 => TOp::Commit,
            30 => TOp::Clear,
            31 => TOp::Reopen,
            32..=34 => TOp::Reorg { back: *rng.pick(&[0u8, 1, 1, 2, 3, 5, 9, 10, 10, 11, 12]) },
            35..=37 => TOp::Range { a: rng.below(N_KEYS as u64 + 2) as u8, b: rng.below(N_KEYS as u64 + 2) as u8 },
            _ => TOp::All,
        };
        ops.push(op);
    }
    ops
}

/// reference: key -> full history (never pruned), plus the image at the last commit
#[derive(Clone, Default)]
struct Model {
    hist: BTreeMap<Vec<u8>, BTreeMap<u64, Option<u64>>>,
}
impl Model {
    fn latest(&self, k: &[u8]) -> Option<u64> {
        self.hist.get(k).and_then(|h| h.values().last().cloned()).flatten()
    }
    fn live(&self) -> Vec<(Vec<u8>, u64)> {
        self.hist.iter().filter_map(|(k, h)| h.values().last().cloned().flatten().map(|v| (k.clone(), v))).collect()
    }
    fn rollback(&mut self, n: u64) {
        for h in self.hist.values_mut() {
            h.retain(|b, _| *b <= n);
        }
    }
}

struct Outcome {
    violation: Option<Violation>,
    stats: Stats,
    transcript: String,
}

fn guarded<T>(f: impl FnOnce() -> T) -> Result<T, String> {
    catch_unwind(AssertUnwindSafe(f)).map_err(|_| take_last_panic().unwrap_or_else(|| "panic".into()))
}

fn run_cached<K>(case: &TCase, mk: &dyn Fn(u8) -> K) -> Outcome
where
    K: Encode + Decode + Eq + Hash + Clone,
{
    type V = U256ED;
    type Db<K> = BlockCachedDatabase<K, V, BlockHistoryCacheData<V>>;
    let mut stats = Stats::default();
    let mut tr = String::new();
    brc20_prog::verif::simhash::set_seed(case.hash_seed);
    let dir = fresh_dir("c13");
    let open = |dir: &std::path::Path| -> Db<K> { Db::<K>::new(dir, "t").expect("open table") };
    let mut db = open(&dir);
    let val = |v: u8| -> V { (v as u64 + 1).into() };
    let un = |v: &V| -> u64 {
        let limbs = v.uint.as_limbs();
        limbs[0]
    };
    let mut model = Model::default();
    let mut committed = Model::default();
    let mut committed_block: u64 = 1;
    let mut committed_tip: u64 = 0;
    // block being built; tip = highest block the table has been told about
    let mut cur: u64 = 1;
    let mut tip: u64 = 0;
    // highest block the table was ever told about: histories are pruned relative to it, so the undo
    // window is measured from it (it only falls back when uncommitted work is discarded)
    let mut max_tip: u64 = 0;
    let mut committed_max_tip: u64 = 0;
    let mut after_deep_reorg = false;
    let keys: Vec<(u8, K, Vec<u8>)> = (0..N_KEYS).map(|i| (i, mk(i), mk(i).encode_vec())).collect();
    let bound = |i: u8| -> K { mk(i.min(N_KEYS + 1)) };
    let mut violation = None;

    macro_rules! fail {
        ($class:expr, $detail:expr) => {{
            violation = Some(Violation::new($class, $detail));
            break;
        }};
    }

    for (i, op) in case.ops.iter().enumerate() {
        match op {
            TOp::Set { key, val: v } => {
                let k = &keys[*key as usize];
                if let Err(p) = guarded(|| db.set(cur, &k.1, val(*v))) {
                    fail!("panic/set", json!({"op": i, "panic": p}));
                }
                model.hist.entry(k.2.clone()).or_default().insert(cur, Some(*v as u64 + 1));
                tip = tip.max(cur);
                max_tip = max_tip.max(tip);
            }
            TOp::Unset { key } => {
                let k = &keys[*key as usize];
                if let Err(p) = guarded(|| db.unset(cur, &k.1)) {
                    fail!("panic/unset", json!({"op": i, "panic": p}));
                }
                model.hist.entry(k.2.clone()).or_default().insert(cur, None);
                tip = tip.max(cur);
                max_tip = max_tip.max(tip);
            }
            TOp::Advance { idle } => {
                tip = tip.max(cur);
                cur += 1 + *idle as u64;
                tip = tip.max(cur - 1);
                max_tip = max_tip.max(tip);
                if *idle >= 10 {
                    stats.bump("probe_idle_gap_ge_10");
                }
            }
            TOp::Commit => {
                match guarded(|| db.commit(cur).map_err(|e| e.to_string())) {
                    Err(p) => fail!("panic/commit", json!({"op": i, "panic": p})),
                    Ok(Err(e)) => fail!("error/commit", json!({"op": i, "error": e})),
                    Ok(Ok(())) => {}
                }
                committed = model.clone();
                committed_block = cur;
                committed_tip = tip;
                committed_max_tip = max_tip;
                stats.bump("commits");
            }
            TOp::Clear | TOp::Reopen => {
                if matches!(op, TOp::Clear) {
                    db.clear_cache();
                    stats.bump("clears");
                } else {
                    drop(db);
                    db = open(&dir);
                    stats.bump("reopens");
                }
                model = committed.clone();
                cur = committed_block;
                tip = committed_tip;
                max_tip = committed_max_tip;
            }
            TOp::Reorg { back } => {
                if tip == 0 {
                    continue;
                }
                let n = tip.saturating_sub(*back as u64);
                let must_be_right = n + 10 >= max_tip;
                after_deep_reorg = !must_be_right;
                let r = guarded(|| db.reorg(n).map_err(|e| e.to_string()));
                match r {
                    Err(p) => {
                        if must_be_right {
                            fail!("panic/reorg-inside-window", json!({"op": i, "target": n, "tip": tip, "panic": p}));
                        }
                        stats.bump("probe_deep_reorg_panicked");
                        break; // table state is undefined after a refused deep rollback
                    }
                    Ok(Err(e)) => {
                        if must_be_right {
                            fail!("error/reorg-inside-window", json!({"op": i, "target": n, "tip": tip, "error": e}));
                        }
                        stats.bump("probe_deep_reorg_refused");
                        break;
                    }
                    Ok(Ok(())) => {
                        model.rollback(n);
                        committed = model.clone();
                        cur = n + 1;
                        tip = n;
                        committed_block = cur;
                        committed_tip = tip;
                        committed_max_tip = max_tip;
                        stats.bump(if must_be_right { "reorgs_inside_window" } else { "probe_deep_reorg_accepted_and_checked" });
                        if *back == 10 {
                            stats.bump("probe_reorg_depth_10");
                        }
                    }
                }
            }
            TOp::Range { a, b } => {
                let (ka, kb) = (bound(*a), bound(*b));
                let (ea, eb) = (ka.encode_vec(), kb.encode_vec());
                let got = match guarded(|| db.get_range(&ka, &kb).map_err(|e| e.to_string())) {
                    Ok(Ok(v)) => v,
                    Ok(Err(e)) => fail!("error/get_range", json!({"op": i, "error": e})),
                    Err(p) => fail!("panic/get_range", json!({"op": i, "panic": p})),
                };
                let got: Vec<(String, u64)> = got.iter().map(|(k, v)| (hex::encode(k.encode_vec()), un(v))).collect();
                let want: Vec<(String, u64)> = model.live().into_iter().filter(|(k, _)| *k >= ea && *k < eb).map(|(k, v)| (hex::encode(k), v)).collect();
                if got != want {
                    let mut gs = got.clone();
                    gs.sort();
                    let class = if gs == want { "range-scan-out-of-order" } else { "range-scan-wrong-content" };
                    fail!(class, json!({"op": i, "from": hex::encode(ea), "to": hex::encode(eb), "got": got, "want": want}));
                }
                stats.bump("range_scans");
                if want.len() >= 2 {
                    stats.bump("probe_range_scan_multi");
                }
                tr.push_str(&format!("R{}", got.len()));
            }
            TOp::All => {
                let got = match guarded(|| db.all().map_err(|e| e.to_string())) {
                    Ok(Ok(v)) => v,
                    Ok(Err(e)) => fail!("error/all", json!({"op": i, "error": e})),
                    Err(p) => fail!("panic/all", json!({"op": i, "panic": p})),
                };
                let mut got: Vec<(String, u64)> = got.iter().map(|(k, v)| (hex::encode(k.encode_vec()), un(v))).collect();
                got.sort();
                let want: Vec<(String, u64)> = model.live().into_iter().map(|(k, v)| (hex::encode(k), v)).collect();
                if got != want {
                    fail!("full-scan-wrong-content", json!({"op": i, "got": got, "want": want}));
                }
                stats.bump("full_scans");
            }
        }
        // point reads of every key after every step
        for (idx, k, enc) in &keys {
            let got = match guarded(|| db.latest(k).map_err(|e| e.to_string())) {
                Ok(Ok(v)) => v.map(|x| un(&x)),
                Ok(Err(e)) => {
                    violation = Some(Violation::new("error/latest", json!({"op": i, "error": e})));
                    break;
                }
                Err(p) => {
                    violation = Some(Violation::new("panic/latest", json!({"op": i, "panic": p})));
                    break;
                }
            };
            let want = model.latest(enc);
            if got != want {
                let after = format!("{:?}", op);
                let after = after.split([' ', '{']).next().unwrap_or("").to_string();
                let class = if after_deep_reorg && matches!(op, TOp::Reorg { .. }) {
                    "deep-rollback-silently-wrong".to_string()
                } else {
                    format!("point-read-wrong/after-{after}")
                };
                violation = Some(Violation::new(
                    class,
                    json!({"op": i, "key": idx, "got": got, "want": want, "cur_block": cur, "tip": tip, "highest_block_ever": max_tip, "history(model)": model.hist.get(enc)}),
                ));
                break;
            }
            tr.push_str(&format!("{}", got.unwrap_or(0)));
        }
        if violation.is_some() {
            break;
        }
        tr.push('|');
    }
    // version-count bound on what was persisted
    if violation.is_none() {
        drop(db);
        let opts = rocksdb::Options::default();
        if let Ok(raw) = rocksdb::DB::open_for_read_only(&opts, dir.join("t_cache"), false) {
            for kv in raw.iterator(rocksdb::IteratorMode::Start) {
                let Ok((k, v)) = kv else { continue };
                if let Ok((n, _)) = u32::decode(&v, 0) {
                    stats.bump("history_rows_checked");
                    if n == 11 {
                        stats.bump("probe_history_row_at_bound");
                    }
                    if n > 11 {
                        violation = Some(Violation::new("too-many-versions", json!({"key": hex::encode(&k), "versions": n})));
                    }
                }
            }
        }
    }
    let _ = std::fs::remove_dir_all(&dir);
    Outcome { violation, stats, transcript: sha_hex(&tr) }
}

fn run_block_db(case: &TCase) -> Outcome {
    let mut stats = Stats::default();
    let mut tr = String::new();
    let dir = fresh_dir("c13b");
    let mut db: BlockDatabase<U64ED> = BlockDatabase::new(&dir, "b").expect("open");
    let mut model: BTreeMap<u64, u64> = BTreeMap::new();
    let mut committed: BTreeMap<u64, u64> = BTreeMap::new();
    let mut cur = 0u64;
    let mut violation = None;
    for (i, op) in case.ops.iter().enumerate() {
        match op {
            TOp::Set { val, .. } | TOp::Unset { key: val } => {
                // one row per block: "finalise block cur with payload val"
                db.set(cur, (*val as u64 + 100 * cur).into());
                model.insert(cur, *val as u64 + 100 * cur);
                cur += 1;
            }
            TOp::Advance { .. } | TOp::Range { .. } | TOp::All => {}
            TOp::Commit => {
                if let Err(e) = db.commit() {
                    violation = Some(Violation::new("error/block-commit", json!({"op": i, "error": e.to_string()})));
                    break;
                }
                // BlockDatabase::commit does not clear its cache (the owner does)
                committed = model.clone();
            }
            TOp::Clear | TOp::Reopen => {
                if matches!(op, TOp::Clear) {
                    db.clear_cache();
                } else {
                    drop(db);
                    db = BlockDatabase::new(&dir, "b").expect("reopen");
                }
                model = committed.clone();
                cur = model.keys().last().map(|k| k + 1).unwrap_or(0);
            }
            TOp::Reorg { back } => {
                let Some(tip) = model.keys().last().cloned() else { continue };
                let n = tip.saturating_sub(*back as u64);
                if let Err(e) = db.reorg(n) {
                    violation = Some(Violation::new("error/block-reorg", json!({"op": i, "error": e.to_string()})));
                    break;
                }
                if let Err(e) = db.commit() {
                    violation = Some(Violation::new("error/block-commit", json!({"op": i, "error": e.to_string()})));
                    break;
                }
                model.retain(|k, _| *k <= n);
                committed = model.clone();
                cur = n + 1;
                stats.bump("block_reorgs");
            }
        }
        let want_last = model.keys().last().cloned();
        let got_last = db.last_key().ok().flatten();
        if got_last != want_last {
            violation = Some(Violation::new("block-table/last-key-wrong", json!({"op": i, "got": got_last, "want": want_last})));
            break;
        }
        for k in 0..cur + 2 {
            let got: Option<u64> = db.get(k).ok().flatten().map(|v| v.into());
            if got != model.get(&k).cloned() {
                violation = Some(Violation::new("block-table/point-read-wrong", json!({"op": i, "block": k, "got": got, "want": model.get(&k)})));
                break;
            }
            tr.push_str(&format!("{:?}", got));
        }
        if violation.is_some() {
            break;
        }
    }
    drop(db);
    let _ = std::fs::remove_dir_all(&dir);
    Outcome { violation, stats, transcript: sha_hex(&tr) }
}

/// the per-key history structure against key -> full history, no storage involved
fn run_history(case: &TCase) -> Outcome {
    let mut stats = Stats::default();
    let mut tr = String::new();
    let mut h: BlockHistoryCacheData<U64ED> = BlockHistoryCacheData::new(None);
    let mut model: BTreeMap<u64, Option<u64>> = BTreeMap::new();
    model.insert(0, None);
    let mut cur = 1u64;
    let mut tip = 0u64;
    let mut max_tip = 0u64;
    let mut violation = None;
    for (i, op) in case.ops.iter().enumerate() {
        max_tip = max_tip.max(tip);
        match op {
            TOp::Set { val, .. } => {
                if let Err(p) = guarded(|| h.set(cur, (*val as u64 + 1).into())) {
                    violation = Some(Violation::new("panic/history-set", json!({"op": i, "panic": p})));
                    break;
                }
                model.insert(cur, Some(*val as u64 + 1));
                tip = tip.max(cur);
            }
            TOp::Unset { .. } => {
                if let Err(p) = guarded(|| h.unset(cur)) {
                    violation = Some(Violation::new("panic/history-unset", json!({"op": i, "panic": p})));
                    break;
                }
                model.insert(cur, None);
                tip = tip.max(cur);
            }
            TOp::Advance { idle } => cur += 1 + *idle as u64,
            TOp::Reorg { back } => {
                let n = tip.saturating_sub(*back as u64);
                let must = n + 10 >= max_tip.max(tip);
                match guarded(|| h.reorg(n)) {
                    Err(p) => {
                        if must {
                            violation = Some(Violation::new("panic/history-reorg-inside-window", json!({"op": i, "target": n, "tip": tip, "panic": p})));
                        }
                        break;
                    }
                    Ok(()) => {
                        model.retain(|b, _| *b <= n);
                        cur = n + 1;
                        tip = n;
                        stats.bump("history_reorgs");
                    }
                }
            }
            _ => {}
        }
        let got: Option<u64> = h.latest().map(|v| v.into());
        let want = model.values().last().cloned().flatten();
        if got != want {
            violation = Some(Violation::new("history/latest-wrong", json!({"op": i, "got": got, "want": want, "model": model})));
            break;
        }
        let enc = h.encode_vec();
        let n = u32::decode(&enc, 0).map(|x| x.0).unwrap_or(0);
        if n > 11 {
            violation = Some(Violation::new("history/too-many-versions", json!({"op": i, "versions": n})));
            break;
        }
        // encode -> decode keeps the structure
        match BlockHistoryCacheData::<U64ED>::decode_vec(&enc) {
            Ok(d) => {
                if d.encode_vec() != enc {
                    violation = Some(Violation::new("history/encode-decode-not-stable", json!({"op": i})));
                    break;
                }
            }
            Err(e) => {
                violation = Some(Violation::new("history/undecodable", json!({"op": i, "error": e.to_string()})));
                break;
            }
        }
        tr.push_str(&format!("{:?}/{}|", got, n));
    }
    Outcome { violation, stats, transcript: sha_hex(&tr) }
}

fn exhaustive_history(depth: usize) -> (Option<Violation>, u64) {
    // alphabet: set(v1) set(v2) unset advance(0) advance(9) reorg(1) reorg(10)
    let alphabet = [
        TOp::Set { key: 0, val: 0 },
        TOp::Set { key: 0, val: 1 },
        TOp::Unset { key: 0 },
        TOp::Advance { idle: 0 },
        TOp::Advance { idle: 9 },
        TOp::Reorg { back: 1 },
        TOp::Reorg { back: 10 },
    ];
    let mut count = 0u64;
    let mut idx = vec![0usize; depth];
    loop {
        let ops: Vec<TOp> = idx.iter().map(|i| alphabet[*i].clone()).collect();
        let case = TCase { table: "history".into(), hash_seed: 0, ops };
        let out = run_history(&case);
        count += 1;
        if let Some(v) = out.violation {
            return (Some(Violation::new(format!("exhaustive/{}", v.class), json!({"sequence": case.ops, "detail": v.detail}))), count);
        }
        let mut k = depth;
        loop {
            if k == 0 {
                return (None, count);
            }
            k -= 1;
            idx[k] += 1;
            if idx[k] < alphabet.len() {
                break;
            }
            idx[k] = 0;
        }
    }
}

const TABLES: [&str; 7] = ["u128", "addr_u64", "u512", "b256", "string", "block", "history"];

pub fn run_case(case: &TCase) -> (Option<Violation>, Stats, String) {
    let out = match case.table.as_str() {
        "u128" => run_cached::<U128ED>(case, &|i| {
            // (block << 64) | index composite, two blocks
            let v: u128 = (((i / 5) as u128 + 1) << 64) | (i % 5) as u128;
            v.into()
        }),
        "addr_u64" => run_cached::<(AddressED, U64ED)>(case, &|i| {
            let mut a = [0u8; 20];
            a[19] = 1 + i / 5;
            (Address::from(a).into(), ((i % 5) as u64 * 300).into())
        }),
        "u512" => run_cached::<U512ED>(case, &|i| {
            let mut a = [0u8; 20];
            a[0] = i / 4;
            // address (20 bytes) || 12 zero bytes || slot (32 bytes), as the storage table keys are built
            let mut bytes = [0u8; 64];
            bytes[..20].copy_from_slice(&a);
            bytes[56..].copy_from_slice(&(i as u64 * 1_000_003).to_be_bytes());
            U512ED::new(alloy::primitives::Uint::<512, 8>::from_be_bytes(bytes))
        }),
        "b256" => run_cached::<B256ED>(case, &|i| {
            let mut b = [0u8; 32];
            b[0] = i.wrapping_mul(37);
            b[31] = i;
            b.into()
        }),
        "string" => run_cached::<String>(case, &|i| format!("{}-inscription-{}", "k".repeat((i % 3) as usize), i)),
        "block" => run_block_db(case),
        "exhaustive" => {
            let depth = case.ops.len().max(1);
            let (v, n) = exhaustive_history(depth);
            let mut s = Stats::default();
            s.add("exhaustive_sequences", n);
            Outcome { violation: v, stats: s, transcript: sha_hex(&n.to_string()) }
        }
        _ => run_history(case),
    };
    (out.violation, out.stats, out.transcript)
}

impl Prop for C13 {
    fn id(&self) -> &'static str {
        "C13"
    }
    fn runs(&self, tier: Tier) -> u64 {
        match tier {
            Tier::Quick => 8000,
            Tier::Thorough => 60000,
        }
    }
    fn generate(&self, seed: u64, tier: Tier) -> Value {
        let mut rng = Rng::new(seed);
        // one run in ~500 is the bounded exhaustive pass over the 7-letter alphabet
        if rng.derive("mode").below(500) == 0 {
            let depth = if tier == Tier::Quick { 5 } else { 7 };
            let c = TCase { table: "exhaustive".into(), hash_seed: 0, ops: vec![TOp::All; depth] };
            return serde_json::to_value(c).unwrap();
        }
        let table = rng.pick(&TABLES).to_string();
        let n = rng.range(10, 120) as usize;
        let hash_seed = rng.next();
        let ops = gen_ops(&mut rng.derive("ops"), n);
        serde_json::to_value(TCase { table, hash_seed, ops }).unwrap()
    }
    fn rule(&self) -> String {
        "case = seeded sequence of set/unset/advance-block(idle 0..11)/commit/clear_cache/reopen/reorg(tip-back)/get_range(boundary keys)/all over 10 keys and 4 values on one real table: BlockCachedDatabase instantiated with the engine's key types (U128 composite, (address,u64), U512, B256, String), BlockDatabase, or the bare per-key history; the model is key -> full history. After every step all point reads, and on request range scans (complete, in encoded-key order) and full scans, must equal the model; reorg to N with N+10>=tip must be right, deeper ones may refuse/panic or be right; persisted histories hold <= 11 versions. About one run in 500 enumerates every sequence over a 7-letter alphabet to depth 5 (quick) / 7 (thorough) on the history structure. distinct = sha256 of (table, ops); non-trivial = contains a commit or reorg and at least 10 ops".into()
    }
    fn components(&self) -> Value {
        json!({"real": ["BlockHistoryCacheData", "BlockCachedDatabase<K,V,C> over two RocksDB instances (tmpfs)", "BlockDatabase over RocksDB", "Encode/Decode of the key types"],
               "stub": ["HashMap hasher (seeded)", "no engine / RPC layer in this check"]})
    }
    fn assumptions(&self) -> Vec<String> {
        vec![
            "block numbers are monotone per table as the component documents; commit(b) is called with b = the block being built, as Brc20ProgDatabase does".into(),
            "key order = order of the encoded keys (the order-preservation law itself is C14, not claimed)".into(),
        ]
    }
    fn shrink(&self, case: &Value) -> Vec<Value> {
        crate::framework::shrink_ops(case)
    }
    fn execute(&self, case: &Value) -> RunOut {
        let c: TCase = serde_json::from_value(case.clone()).expect("TCase");
        let (violation, stats, transcript) = run_case(&c);
        let nontrivial = c.ops.len() >= 10 && c.ops.iter().any(|o| matches!(o, TOp::Commit | TOp::Reorg { .. }));
        RunOut {
            digest: sha_hex(&serde_json::to_string(&(c.table.clone(), &c.ops)).unwrap_or_default()),
            nontrivial,
            stats,
            sim_ms: 0,
            violation,
            transcript,
            states: vec![],
        }
    }
}
