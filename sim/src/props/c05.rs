//! C05 - a rejected indexer call changes nothing; the block protocol is enforced.
use super::common::*;
use crate::framework::{Prop, RunOut, Tier, Violation};
use crate::gen::{CommitSched, Gen, Profile};
use crate::inst::{Instance, Resp};
use crate::obs::{self, Depth};
use crate::ops::*;
use crate::rng::Rng;
use crate::world::World;
use serde_json::{json, Value};

pub struct C05;

fn profile(rng: &mut Rng) -> Profile {
    let mut p = Profile::default();
    p.blocks = (4, 14);
    p.txs = (1, 4);
    p.commit = CommitSched::Random(1, 4);
    p.p_bad = (1, *rng.pick(&[1u64, 2, 3]));
    p.p_midblock = (1, 2);
    p.p_mine = (1, 20);
    p.p_reorg = (1, 12);
    p.w_spin = 0;
    p.signed_chaos = rng.chance(1, 2);
    p.len_variety = rng.chance(1, 3);
    p
}

/// kinds the statement lists as protocol violations: they must be answered with an error
fn must_reject(b: &BadOp, mid: bool) -> bool {
    match b {
        BadOp::WrongTxIdx(_) | BadOp::HugeTxIdx | BadOp::FinaliseWrongCount(_) => true,
        BadOp::OtherTimestamp | BadOp::OtherHash => mid,
        BadOp::ZeroIdxOtherHash | BadOp::ZeroIdxExistingHash | BadOp::OtherHashAndTimestamp | BadOp::WrongIdxOtherTimestamp => mid,
        BadOp::ExistingHash | BadOp::InitForeignGenesis => true,
        BadOp::CommitMidBlock | BadOp::ReorgMidBlock => mid,
        BadOp::BothEncodings | BadOp::BothEncodingsHexBad | BadOp::BothEncodingsB64Bad | BadOp::NeitherEncoding => true,
        BadOp::FinaliseExistingHash => !mid,
        // not on the statement's list: judged only by "an error changes nothing"
        BadOp::InitWrongHeight | BadOp::MineMidBlock | BadOp::OddPkscript | BadOp::NonHexPkscript => false,
        BadOp::UndecodableTx | BadOp::WrongChainTx | BadOp::FarFutureTx | BadOp::StaleTx => false,
        BadOp::ReorgAboveHeight | BadOp::ReorgTooDeep => false,
    }
}

/// kinds that may also be silently ignored (C08 wording): an empty OK answer must not change anything either
fn may_be_ignored(b: &BadOp) -> bool {
    matches!(b, BadOp::UndecodableTx | BadOp::WrongChainTx | BadOp::FarFutureTx | BadOp::StaleTx)
}

impl Prop for C05 {
    fn id(&self) -> &'static str {
        "C05"
    }
    fn runs(&self, tier: Tier) -> u64 {
        match tier {
            Tier::Quick => 640,
            Tier::Thorough => 6000,
        }
    }
    fn generate(&self, seed: u64, _tier: Tier) -> Value {
        let rng = Rng::new(seed);
        let p = profile(&mut rng.derive("profile"));
        let mut g = Gen::new(rng.derive("workload"), &p);
        let mut sc = g.scenario();
        // while the chain consists of the genesis block only: its hash offered again for block 1
        let mut r = rng.derive("genesis-only");
        if let Some(at) = sc.ops.iter().position(|o| matches!(o, Op::Init { .. })) {
            if r.chance(1, 3) {
                sc.ops.insert(at + 1, Op::Bad(if r.chance(1, 2) { BadOp::ExistingHash } else { BadOp::FinaliseExistingHash }));
            }
        }
        case_of(&sc)
    }
    fn rule(&self) -> String {
        "case = seeded valid history with out-of-protocol / malformed calls (25 kinds, incl. calls with two fields wrong at once and the genesis hash offered again while the chain holds nothing else) injected at block boundaries and mid-block (after tx 0..k, after parked or failed txs). Oracles: (1) every injected call of a kind the statement lists must return an error; (2) for every injected call answered with an error (or silently ignored), obs before == obs after (non-executing getters mid-block, full obs at boundaries); (3) a clean twin runs the same history without the injected calls: every per-call result and sampled boundary obs must be equal, which exposes residue of calls that failed after partial execution. distinct = sha256 of op list; non-trivial = at least one injected call was rejected mid-block and compared".into()
    }
    fn assumptions(&self) -> Vec<String> {
        vec![
            "brc20_initialise answering 'Bitcoin RPC status check failed' after creating genesis is out of scope (environment)".into(),
            "kinds not on the statement's list (mine mid-block, initialise at a non-next height, malformed pkscript, reorg above height / too deep) are judged only by 'an error changes nothing'".into(),
        ]
    }
    fn execute(&self, case: &Value) -> RunOut {
        let sc = scenario_of(case);
        setup(&sc);
        let timer = Timer::start();
        let mut a = World::new(Instance::fresh_seeded("c05-a", sc.hash_seed), sc.config.clone());
        let mut b = World::new(Instance::fresh_seeded("c05-b", sc.hash_seed), sc.config.clone());
        let mut nontrivial = false;
        let mut violation: Option<Violation> = None;
        let mut cmp_rng = Rng::new(sc.hash_seed).derive("cmp");

        'ops: for (i, op) in sc.ops.iter().enumerate() {
            if let Op::Bad(bad) = op {
                let mid = a.open.as_ref().map_or(false, |o| o.txs > 0);
                let depth = if mid { Depth::Getters } else { Depth::Full };
                let kind = format!("{:?}", bad);
                let kind = kind.split('(').next().unwrap_or("").to_string();
                // the inscription id the injected call will carry, so that residue under it is observable
                a.uni.inscription_ids.insert(format!("bad-{}-{}", kind, i));
                let uni = a.uni.clone();
                let before = obs::observe(&mut a.inst, &uni, depth);
                let log_before = a.log.len();
                a.op_index = i;
                let r = a.exec_bad(bad);
                if a.log.len() == log_before {
                    continue; // not applicable in this state (nothing was sent)
                }
                match &r {
                    Resp::Panic(m) => {
                        violation = Some(Violation::new(format!("panic/{kind}"), json!({"op": i, "mid_block": mid, "panic": m})));
                        break 'ops;
                    }
                    Resp::Ok(v) => {
                        if must_reject(bad, mid) {
                            violation = Some(Violation::new(
                                format!("protocol-violation-accepted/{kind}"),
                                json!({"op": i, "mid_block": mid, "call": a.log.last().map(|c| json!({"method": c.call.method, "params": trunc(&c.call.params)})), "resp": trunc(v)}),
                            ));
                            break 'ops;
                        }
                        let ignored = may_be_ignored(bad) && v.as_array().map(|x| x.is_empty()).unwrap_or(false);
                        if !ignored {
                            // accepted call outside the statement's list: bookkeeping is no longer valid, stop without judgement
                            a.stats.bump("unlisted_bad_call_accepted");
                            break 'ops;
                        }
                        a.stats.bump("probe_bad_call_ignored");
                    }
                    Resp::Err { .. } => {
                        a.stats.bump(if mid { "probe_rejected_mid_block" } else { "probe_rejected_at_boundary" });
                    }
                }
                let after = obs::observe(&mut a.inst, &uni, depth);
                if let Some((q, detail)) = first_diff(&before, &after) {
                    violation = Some(Violation::new(
                        format!("rejected-call-changed-state/{kind}/{q}"),
                        json!({"op": i, "mid_block": mid, "call": a.log.last().map(|c| json!({"method": c.call.method, "params": trunc(&c.call.params)})), "resp": r.to_value(), "diff(before,after)": detail}),
                    ));
                    break 'ops;
                }
                if mid {
                    nontrivial = true;
                }
                continue;
            }
            let ra = a.exec(i, op);
            let rb = b.exec(i, op);
            let va: Vec<Value> = ra.iter().map(|r| r.to_value()).collect();
            let vb: Vec<Value> = rb.iter().map(|r| r.to_value()).collect();
            if any_panic(&ra).is_some() || any_panic(&rb).is_some() {
                violation = Some(Violation::new("panic-in-history", json!({"op": i, "A": va, "B": vb})));
                break 'ops;
            }
            if va != vb {
                let k = va.iter().zip(vb.iter()).position(|(x, y)| x != y).unwrap_or(va.len().min(vb.len()));
                let method = a.log.iter().filter(|c| c.op_index == i).nth(k).map(|c| c.call.method.clone()).unwrap_or_default();
                violation = Some(Violation::new(
                    format!("later-call-differs-from-clean-twin/{method}"),
                    json!({"op": i, "call": k, "with_rejected_calls": va.get(k).map(trunc), "clean_twin": vb.get(k).map(trunc)}),
                ));
                break 'ops;
            }
            if a.open.is_none() && cmp_rng.chance(1, 4) {
                let mut uni = a.uni.clone();
                uni.merge(&b.uni);
                if let Some((q, detail)) = compare(&mut a.inst, &mut b.inst, &uni, Depth::Full) {
                    violation = Some(Violation::new(format!("state-differs-from-clean-twin/{q}"), json!({"op": i, "diff(A,clean)": detail})));
                    break 'ops;
                }
            }
        }
        if violation.is_none() && a.stats.counts.get("unlisted_bad_call_accepted").is_none() {
            let mut uni = a.uni.clone();
            uni.merge(&b.uni);
            let depth = if a.open.is_some() { Depth::Getters } else { Depth::Full };
            if let Some((q, detail)) = compare(&mut a.inst, &mut b.inst, &uni, depth) {
                violation = Some(Violation::new(format!("state-differs-from-clean-twin/{q}"), json!({"op": "final", "diff(A,clean)": detail})));
            }
        }
        finish(&sc, &[&a, &b], nontrivial, &timer, violation)
    }
}
