//! C10 - read-only methods never change state.
use super::common::*;
use crate::framework::{Prop, RunOut, Tier, Violation};
use crate::gen::{CommitSched, Gen, Profile};
use crate::inst::{canon, Instance};
use crate::obs::{self, Depth};
use crate::ops::*;
use crate::rng::Rng;
use crate::world::World;
use brc20_prog::verif::Decode;
use serde_json::{json, Value};
use std::collections::BTreeMap;
use std::path::Path;

pub struct C10;

fn profile(rng: &mut Rng) -> Profile {
    let mut p = Profile::default();
    p.blocks = (4, 14);
    p.txs = (1, 4);
    p.commit = CommitSched::Random(1, 4);
    p.p_read = (1, 1);
    p.p_midblock = (1, 4);
    p.p_mine = (1, 20);
    p.p_reorg = (1, 12);
    // losses of caches in the common history: what a read wrote behind the caches' back would survive them
    p.p_clear = (1, 10);
    p.p_restart = (1, 20);
    p.w_spin = 0;
    p.w_erc = 5;
    p.signed_chaos = rng.chance(1, 3);
    p
}

/// all key/value pairs of every RocksDB under `dir`, block rows with mineTimestamp masked
pub fn dump_dir(dir: &Path) -> BTreeMap<String, String> {
    let mut out = BTreeMap::new();
    let Ok(rd) = std::fs::read_dir(dir) else { return out };
    let mut subs: Vec<_> = rd.filter_map(|e| e.ok()).filter(|e| e.path().is_dir()).map(|e| e.file_name().to_string_lossy().to_string()).collect();
    subs.sort();
    for name in subs {
        let opts = rocksdb::Options::default();
        let Ok(db) = rocksdb::DB::open_for_read_only(&opts, dir.join(&name), false) else {
            out.insert(format!("{name}/<unopenable>"), String::new());
            continue;
        };
        for kv in db.iterator(rocksdb::IteratorMode::Start) {
            let Ok((k, v)) = kv else { continue };
            let val = if name == "block_number_to_block" {
                match brc20_prog::types::BlockResponseED::decode_vec(&v.to_vec()) {
                    Ok(b) => canon(&serde_json::to_value(&b).unwrap_or(Value::Null)).to_string(),
                    Err(_) => hex::encode(&v),
                }
            } else {
                hex::encode(&v)
            };
            out.insert(format!("{}/{}", name, hex::encode(&k)), val);
        }
    }
    out
}

impl Prop for C10 {
    fn id(&self) -> &'static str {
        "C10"
    }
    fn runs(&self, tier: Tier) -> u64 {
        match tier {
            Tier::Quick => 640,
            Tier::Thorough => 6000,
        }
    }
    fn generate(&self, seed: u64, _tier: Tier) -> Value {
        let rng = Rng::new(seed);
        let p = profile(&mut rng.derive("profile"));
        let mut g = Gen::new(rng.derive("workload"), &p);
        let mut sc = g.scenario();
        // reads against a database that has no block yet
        let mut r = rng.derive("early");
        if r.chance(1, 4) {
            let n = r.range(1, 3);
            for _ in 0..n {
                let rd = g.read_op();
                sc.ops.insert(0, Op::Read(rd));
            }
        }
        case_of(&sc)
    }
    fn rule(&self) -> String {
        "case = seeded history with read requests (eth_call incl. creations, eth_callMany with state carry-over / failing element / overrides, eth_estimateGas(Many), brc20_balance, getters; all executing state-mutating bytecode from the contract library) after every block and non-executing getters mid-block, on replica A; replica B runs the history without them. Oracles: obs before == obs after each read; every non-read call result equal on A and B; sampled boundary obs equal; after a final commit on both the 16 RocksDB directories are dumped and compared key by key (mineTimestamp masked). distinct = sha256 of op list; non-trivial = at least one executing read ran state-mutating code and was compared".into()
    }
    fn execute(&self, case: &Value) -> RunOut {
        let sc = scenario_of(case);
        setup(&sc);
        let timer = Timer::start();
        let mut a = World::new(Instance::fresh_seeded("c10-a", sc.hash_seed), sc.config.clone());
        let mut b = World::new(Instance::fresh_seeded("c10-b", sc.hash_seed), sc.config.clone());
        let mut nontrivial = false;
        let mut violation: Option<Violation> = None;
        let mut cmp_rng = Rng::new(sc.hash_seed).derive("cmp");

        'ops: for (i, op) in sc.ops.iter().enumerate() {
            if let Op::Read(r) = op {
                let mid = a.open.is_some();
                let depth = if mid { Depth::Getters } else { Depth::Full };
                let uni = a.uni.clone();
                let before = obs::observe(&mut a.inst, &uni, depth);
                a.op_index = i;
                let rs = a.exec_read(r);
                if let Some(p) = any_panic(&rs) {
                    violation = Some(Violation::new("panic-in-read", json!({"op": i, "read": format!("{:?}", r).chars().take(300).collect::<String>(), "panic": p})));
                    break 'ops;
                }
                let after = obs::observe(&mut a.inst, &uni, depth);
                let kind = format!("{:?}", r);
                let kind = kind.split([' ', '{', '(']).next().unwrap_or("").to_string();
                if let Some((q, detail)) = first_diff(&before, &after) {
                    violation = Some(Violation::new(
                        format!("read-changed-state/{kind}/{q}"),
                        json!({"op": i, "mid_block": mid, "read": trunc(&serde_json::to_value(r).unwrap_or(Value::Null)), "diff(before,after)": detail}),
                    ));
                    break 'ops;
                }
                a.stats.bump(&format!("probe_read_{}{}", kind, if mid { "_mid" } else { "" }));
                if !mid && rs.iter().any(|x| x.is_ok()) && !matches!(r, ReadOp::Getters) {
                    nontrivial = true;
                }
                continue;
            }
            let ra = a.exec(i, op);
            let rb = b.exec(i, op);
            let va: Vec<Value> = ra.iter().map(|r| r.to_value()).collect();
            let vb: Vec<Value> = rb.iter().map(|r| r.to_value()).collect();
            if any_panic(&ra).is_some() || any_panic(&rb).is_some() {
                violation = Some(Violation::new("panic-in-history", json!({"op": i, "A": va, "B": vb})));
                break 'ops;
            }
            if va != vb {
                let k = va.iter().zip(vb.iter()).position(|(x, y)| x != y).unwrap_or(va.len().min(vb.len()));
                let method = a.log.iter().filter(|c| c.op_index == i).nth(k).map(|c| c.call.method.clone()).unwrap_or_default();
                violation = Some(Violation::new(
                    format!("later-call-differs-from-twin-without-reads/{method}"),
                    json!({"op": i, "call": k, "with_reads": va.get(k).map(trunc), "without_reads": vb.get(k).map(trunc)}),
                ));
                break 'ops;
            }
            if a.open.is_none() && cmp_rng.chance(1, 5) {
                let mut uni = a.uni.clone();
                uni.merge(&b.uni);
                if let Some((q, detail)) = compare(&mut a.inst, &mut b.inst, &uni, Depth::Full) {
                    violation = Some(Violation::new(format!("state-differs-from-twin-without-reads/{q}"), json!({"op": i, "diff": detail})));
                    break 'ops;
                }
            }
        }
        if violation.is_none() {
            // finish any open block identically, commit, and compare what is on disk
            if a.open.is_some() {
                a.exec(sc.ops.len(), &Op::ClearCaches);
                b.exec(sc.ops.len(), &Op::ClearCaches);
            }
            a.exec(sc.ops.len(), &Op::Commit);
            b.exec(sc.ops.len(), &Op::Commit);
            a.inst.close();
            b.inst.close();
            let da = dump_dir(&a.inst.dir);
            let db = dump_dir(&b.inst.dir);
            a.stats.add("db_rows_compared", da.len() as u64);
            if da != db {
                let mut keys: Vec<&String> = da.keys().chain(db.keys()).collect();
                keys.sort();
                keys.dedup();
                let diffs: Vec<Value> = keys
                    .iter()
                    .filter(|k| da.get(**k) != db.get(**k))
                    .take(4)
                    .map(|k| json!({"row": k, "with_reads": da.get(*k).map(|s| trunc(&json!(s))), "without_reads": db.get(*k).map(|s| trunc(&json!(s)))}))
                    .collect();
                let table = diffs.first().and_then(|d| d["row"].as_str()).map(|r| r.split('/').next().unwrap_or("").to_string()).unwrap_or_default();
                violation = Some(Violation::new(format!("database-contents-differ/{table}"), json!({"rows": diffs})));
            }
        }
        finish(&sc, &[&a, &b], nontrivial, &timer, violation)
    }
}
