//! C09, transport part: the real server (public start()) on a loopback port, abused at the HTTP / TCP level by a
//! seeded sequence of faults a real network produces - torn, oversized and malformed requests, connections that
//! vanish while a handler runs or waits, connection floods - each followed by a liveness probe on a fresh connection.
use crate::framework::Violation;
use crate::http::{Client, Server};
use crate::rng::Rng;
use crate::world::{pkscript, Stats, ZERO_HASH};
use serde_json::{json, Value};
use std::io::{Read, Write};
use std::net::{Shutdown, TcpStream};
use std::time::{Duration, Instant};

pub const KINDS: [&str; 23] = [
    "odd-authorization-header",
    "truncated-body-close",
    "truncated-body-half-close",
    "oversized-body",
    "oversized-declared-length",
    "garbage-request-line",
    "invalid-utf8-body",
    "empty-body",
    "deep-nesting",
    "batch-above-limit",
    "batch-of-non-requests",
    "other-http-verbs",
    "long-header",
    "connection-flood",
    "disconnect-during-heavy-call",
    "disconnect-while-waiting-for-open-block",
    "pipelined-requests",
    "slow-headers",
    "bad-chunked-body",
    "websocket-upgrade-then-garbage",
    "conflicting-content-length",
    "large-valid-request",
    "reset-mid-response",
];

fn connect(port: u16) -> Option<TcpStream> {
    let s = TcpStream::connect(("127.0.0.1", port)).ok()?;
    let _ = s.set_read_timeout(Some(Duration::from_secs(8)));
    let _ = s.set_write_timeout(Some(Duration::from_secs(8)));
    let _ = s.set_nodelay(true);
    Some(s)
}

fn head(len: usize) -> String {
    format!("POST / HTTP/1.1\r\nHost: 127.0.0.1\r\nContent-Type: application/json\r\nContent-Length: {len}\r\n\r\n")
}

/// read whatever comes until EOF / timeout / `max` bytes; the content is irrelevant, the server's survival is not
fn drain(s: &mut TcpStream, max: usize) -> usize {
    let mut buf = [0u8; 16384];
    let mut n = 0;
    // the first byte may take a while (a handler runs), the rest follows at once; a kept-alive connection never ends
    let _ = s.set_read_timeout(Some(Duration::from_millis(1500)));
    while n < max {
        if n > 0 {
            let _ = s.set_read_timeout(Some(Duration::from_millis(60)));
        }
        match s.read(&mut buf) {
            Ok(0) | Err(_) => break,
            Ok(k) => n += k,
        }
    }
    n
}

fn rpc(method: &str, params: Value) -> String {
    json!({"jsonrpc": "2.0", "id": 1, "method": method, "params": params}).to_string()
}

/// a fresh connection must be served within `within`
fn probe(port: u16, within: Duration, auth: Option<&str>) -> Result<u64, String> {
    let t0 = Instant::now();
    let mut last = String::new();
    while t0.elapsed() < within {
        let mut c = Client::new(port);
        match c.call("eth_blockNumber", json!([]), auth) {
            Ok(v) => {
                if let Some(h) = v["result"].as_str() {
                    return u64::from_str_radix(h.trim_start_matches("0x"), 16).map_err(|e| e.to_string());
                }
                last = v.to_string();
            }
            Err(e) => last = e,
        }
        std::thread::sleep(Duration::from_millis(100));
    }
    Err(last)
}

fn abuse(kind: &str, port: u16, rng: &mut Rng, contract: &str, stats: &mut Stats, auth: Option<&str>) {
    let Some(mut s) = connect(port) else { return };
    match kind {
        "odd-authorization-header" => {
            // header values are opaque bytes on the wire
            let body = rpc(*rng.pick(&["eth_blockNumber", "brc20_mine"]), json!([]));
            let mut req = b"POST / HTTP/1.1\r\nHost: x\r\nContent-Type: application/json\r\nAuthorization: ".to_vec();
            match rng.below(5) {
                0 => req.extend_from_slice(&[b'B', b'a', b's', b'i', b'c', b' ', 0xff, 0xfe, 0x80]),
                1 => req.extend_from_slice("Basic \u{fc}ber".as_bytes()),
                2 => req.extend_from_slice(b"B"),
                3 => {
                    let n = rng.range(1, 40) as usize;
                    req.extend(rng.bytes(n).into_iter().map(|b| if b == b'\r' || b == b'\n' || b == 0 { 0x81 } else { b }));
                }
                _ => req.extend_from_slice(b"Basic\t\t"),
            }
            req.extend_from_slice(format!("\r\nContent-Length: {}\r\n\r\n{}", body.len(), body).as_bytes());
            let _ = s.write_all(&req);
            drain(&mut s, 1 << 16);
        }
        "truncated-body-close" => {
            let body = rpc("eth_getBlockByNumber", json!(["0x1", true]));
            let cut = rng.range(0, body.len() as u64 - 1) as usize;
            let _ = s.write_all(head(body.len()).as_bytes());
            let _ = s.write_all(&body.as_bytes()[..cut]);
        }
        "truncated-body-half-close" => {
            let body = rpc("brc20_mine", json!([1, 1_800_000_000u64]));
            let cut = rng.range(0, body.len() as u64 - 1) as usize;
            let _ = s.write_all(head(body.len()).as_bytes());
            let _ = s.write_all(&body.as_bytes()[..cut]);
            let _ = s.shutdown(Shutdown::Write);
            drain(&mut s, 1 << 20);
        }
        "oversized-body" => {
            // just above the configured 10 MiB request limit
            let len = 10 * 1024 * 1024 + rng.range(1, 4096) as usize;
            let _ = s.write_all(head(len).as_bytes());
            let chunk = vec![b' '; 1 << 16];
            let mut sent = 0;
            while sent < len {
                let k = chunk.len().min(len - sent);
                if s.write_all(&chunk[..k]).is_err() {
                    break;
                }
                sent += k;
            }
            drain(&mut s, 1 << 16);
        }
        "oversized-declared-length" => {
            let _ = s.write_all(head(*rng.pick(&[1usize << 40, usize::MAX / 2, 10 * 1024 * 1024 + 1])).as_bytes());
            let _ = s.write_all(b"[");
            drain(&mut s, 1 << 16);
        }
        "garbage-request-line" => {
            let n = rng.range(1, 300) as usize;
            let g = rng.bytes(n);
            let _ = s.write_all(&g);
            let _ = s.write_all(b"\r\n\r\n");
            drain(&mut s, 1 << 16);
        }
        "invalid-utf8-body" => {
            let mut body = rpc("eth_call", json!([{"to": contract, "data": "0x0c41"}])).into_bytes();
            let at = rng.below(body.len() as u64) as usize;
            body[at] = *rng.pick(&[0xffu8, 0xc0, 0x80, 0x00]);
            let _ = s.write_all(head(body.len()).as_bytes());
            let _ = s.write_all(&body);
            drain(&mut s, 1 << 16);
        }
        "empty-body" => {
            let _ = s.write_all(head(0).as_bytes());
            drain(&mut s, 1 << 16);
        }
        "deep-nesting" => {
            let depth = *rng.pick(&[129usize, 1000, 200_000]);
            let body = format!("{}{}", "[".repeat(depth), if rng.chance(1, 2) { "]".repeat(depth) } else { String::new() });
            let _ = s.write_all(head(body.len()).as_bytes());
            let _ = s.write_all(body.as_bytes());
            drain(&mut s, 1 << 16);
        }
        "batch-above-limit" => {
            let n = *rng.pick(&[51usize, 500, 20_000]);
            let one = rpc("eth_blockNumber", json!([]));
            let body = format!("[{}]", vec![one; n].join(","));
            let _ = s.write_all(head(body.len()).as_bytes());
            let _ = s.write_all(body.as_bytes());
            drain(&mut s, 1 << 22);
        }
        "batch-of-non-requests" => {
            let body = json!([1, "x", null, {}, [], {"jsonrpc": "2.0"}, {"jsonrpc": "2.0", "method": 5, "id": 1}, {"jsonrpc": "2.0", "method": "brc20_mine", "id": {"a": 1}, "params": "zz"}]).to_string();
            let _ = s.write_all(head(body.len()).as_bytes());
            let _ = s.write_all(body.as_bytes());
            drain(&mut s, 1 << 16);
        }
        "other-http-verbs" => {
            let verb = *rng.pick(&["GET", "PUT", "DELETE", "OPTIONS", "HEAD", "CONNECT", "PATCH", "TRACE"]);
            let _ = s.write_all(format!("{verb} /{} HTTP/1.1\r\nHost: x\r\nOrigin: http://evil\r\nAccess-Control-Request-Method: POST\r\n\r\n", hex::encode(rng.bytes(4))).as_bytes());
            drain(&mut s, 1 << 16);
        }
        "long-header" => {
            let n = *rng.pick(&[8_000usize, 70_000, 1_000_000]);
            let _ = s.write_all(format!("POST / HTTP/1.1\r\nHost: x\r\nAuthorization: Basic {}\r\nContent-Length: 2\r\n\r\n[]", "A".repeat(n)).as_bytes());
            drain(&mut s, 1 << 16);
        }
        "connection-flood" => {
            // more idle connections than the server admits; they all vanish without a word
            let n = rng.range(90, 160);
            let mut held = vec![s];
            for _ in 0..n {
                if let Some(c) = connect(port) {
                    held.push(c);
                }
            }
            // a few of them start a request and never finish it
            for c in held.iter_mut().take(10) {
                let _ = c.write_all(b"POST / HTTP/1.1\r\nContent-Length: 100\r\n\r\n{\"jsonrpc\"");
            }
            stats.add("flood_connections_opened", held.len() as u64);
            drop(held);
            return;
        }
        "disconnect-during-heavy-call" => {
            // a creation that burns its whole call gas limit; the client is gone before the answer
            let body = rpc("eth_call", json!([{"from": "0x000000000000000000000000000000000000dead", "data": "0x5b600056"}]));
            let _ = s.write_all(head(body.len()).as_bytes());
            let _ = s.write_all(body.as_bytes());
            if rng.chance(1, 2) {
                std::thread::sleep(Duration::from_millis(rng.range(0, 30)));
            }
        }
        "disconnect-while-waiting-for-open-block" => {
            // an eth_call that has to wait for the block under construction; the client leaves during the wait and
            // the indexer then finishes the block
            let mut c = Client::new(port);
            let ts = 1_850_000_000u64 + rng.below(1000);
            let opened = c.call("brc20_deposit", json!([pkscript(1), "ordi", "0x5", ts, ZERO_HASH, 0, format!("c09t-{}", rng.next())]), auth);
            let body = rpc("eth_call", json!([{"to": contract, "data": "0x0c41"}]));
            let _ = s.write_all(head(body.len()).as_bytes());
            let _ = s.write_all(body.as_bytes());
            std::thread::sleep(Duration::from_millis(rng.range(0, 400)));
            drop(s);
            if opened.map(|v| v["result"].is_object() || v["result"].is_null() && v["error"].is_null()).unwrap_or(false) {
                let _ = c.call("brc20_finaliseBlock", json!([ts, ZERO_HASH, 1]), auth);
                stats.bump("open_block_waits_abandoned");
            } else {
                let _ = c.call("brc20_clearCaches", json!([]), auth);
            }
            return;
        }
        "pipelined-requests" => {
            let n = rng.range(2, 40);
            let mut all = Vec::new();
            for i in 0..n {
                let body = if i % 3 == 2 { rpc("eth_getBlockByNumber", json!(["latest", true])) } else { rpc("eth_blockNumber", json!([])) };
                all.extend_from_slice(head(body.len()).as_bytes());
                all.extend_from_slice(body.as_bytes());
            }
            let _ = s.write_all(&all);
            if rng.chance(1, 2) {
                drain(&mut s, 4096);
            }
        }
        "slow-headers" => {
            let h = head(2);
            for b in h.as_bytes().iter().take(rng.range(1, h.len() as u64) as usize) {
                let _ = s.write_all(&[*b]);
                if rng.chance(1, 8) {
                    std::thread::sleep(Duration::from_millis(1));
                }
            }
        }
        "bad-chunked-body" => {
            let _ = s.write_all(b"POST / HTTP/1.1\r\nHost: x\r\nContent-Type: application/json\r\nTransfer-Encoding: chunked\r\n\r\n");
            let chunk = *rng.pick(&["zz\r\n[]\r\n0\r\n\r\n", "ffffffffffffffff\r\n[", "2\r\n[]\r\n", "-1\r\n[]\r\n0\r\n\r\n", "2;ext=1\r\n[]\r\n0\r\nTrailer: x\r\n\r\n"]);
            let _ = s.write_all(chunk.as_bytes());
            drain(&mut s, 1 << 16);
        }
        "websocket-upgrade-then-garbage" => {
            let _ = s.write_all(b"GET / HTTP/1.1\r\nHost: x\r\nUpgrade: websocket\r\nConnection: Upgrade\r\nSec-WebSocket-Key: dGhlIHNhbXBsZSBub25jZQ==\r\nSec-WebSocket-Version: 13\r\n\r\n");
            let mut buf = [0u8; 2048];
            let _ = s.read(&mut buf);
            let n = rng.range(1, 2000) as usize;
            let g = rng.bytes(n);
            let _ = s.write_all(&g);
            // a masked text frame carrying a protected method, then an oversized frame header
            let _ = s.write_all(&[0x81, 0xfe, 0xff, 0xff, 1, 2, 3, 4]);
            drain(&mut s, 1 << 16);
        }
        "conflicting-content-length" => {
            let body = rpc("eth_blockNumber", json!([]));
            let _ = s.write_all(format!("POST / HTTP/1.1\r\nHost: x\r\nContent-Type: application/json\r\nContent-Length: {}\r\nContent-Length: {}\r\n\r\n{}", body.len(), *rng.pick(&["0", "-5", "abc", "99999999999999999999999"]), body).as_bytes());
            drain(&mut s, 1 << 16);
        }
        "large-valid-request" => {
            // well below the limit, well-formed: megabytes of call data through eth_call and of garbage through transact
            let n = *rng.pick(&[100_000usize, 1_000_000, 4_000_000]);
            let body = if rng.chance(1, 2) {
                rpc("eth_call", json!([{"to": contract, "data": format!("0x0c{}", "ab".repeat(n))}]))
            } else {
                rpc("brc20_transact", json!([format!("0x{}", "c0".repeat(n)), null, 1_850_000_000u64, ZERO_HASH, 0, "c09t-big", 2000, ZERO_HASH]))
            };
            let _ = s.write_all(head(body.len()).as_bytes());
            let _ = s.write_all(body.as_bytes());
            drain(&mut s, 1 << 24);
        }
        _ => {
            // ask for a large answer (raw block / full block list) and reset the connection after the first bytes
            let body = format!("[{}]", vec![rpc("eth_getBlockByNumber", json!(["latest", true])); 40].join(","));
            let _ = s.write_all(head(body.len()).as_bytes());
            let _ = s.write_all(body.as_bytes());
            let mut b = [0u8; 16];
            let _ = s.read(&mut b);
            // SO_LINGER 0 would send RST; dropping with unread data pending has the same effect on Linux
        }
    }
}

pub struct Outcome {
    pub stats: Stats,
    pub violation: Option<Violation>,
    pub transcript: String,
    pub abuses: u64,
}

pub fn run(seed: u64, n: u64, only: Option<u64>) -> Outcome {
    let mut stats = Stats::default();
    let mut tr = String::new();
    let mut rng = Rng::new(seed);
    let dir = crate::inst::fresh_dir("c09t");
    let network = *rng.pick(&["signet", "regtest", "mainnet"]);
    let _ = crate::inst::drain_all_panics();
    // half of the runs with authentication enabled: the HTTP auth layer sees every malformed request first
    let good = crate::http::basic("indexer", "pw");
    let auth_on = rng.chance(1, 2);
    let auth: Option<&str> = if auth_on { Some(good.as_str()) } else { None };
    let srv = match Server::start(network, rng.chance(1, 2), &dir.to_string_lossy(), if auth_on { Some(("indexer", "pw")) } else { None }) {
        Ok(s) => s,
        Err(e) => return Outcome { stats, violation: Some(Violation::new("harness/start-failed", json!({"error": e}))), transcript: tr, abuses: 0 },
    };
    let port = srv.port;
    let mut violation = None;
    let mut abuses = 0;
    // a little state: genesis, a contract, a committed and an uncommitted block
    let contract = {
        let mut c = Client::new(port);
        let _ = c.call("brc20_initialise", json!([ZERO_HASH, 1_700_000_000u64, 0]), auth);
        let code = crate::world::hex0x(&crate::programs::store_initcode());
        let r = c.call("brc20_deploy", json!([pkscript(0), code, null, 1_700_000_001u64, ZERO_HASH, 0, "c09t-deploy", 2000, ZERO_HASH]), auth).unwrap_or(Value::Null);
        let _ = c.call("brc20_finaliseBlock", json!([1_700_000_001u64, ZERO_HASH, 1]), auth);
        let _ = c.call("brc20_commitToDatabase", json!([]), auth);
        let _ = c.call("brc20_mine", json!([1, 1_700_000_002u64]), auth);
        r["result"]["contractAddress"].as_str().unwrap_or("0x000000000000000000000000000000000000dead").to_string()
    };
    for k in 0..n {
        let kind = *rng.pick(&KINDS);
        let mut arng = rng.derive(&format!("abuse{k}"));
        if only.map_or(false, |o| o != k) {
            continue;
        }
        abuse(kind, port, &mut arng, &contract, &mut stats, auth);
        abuses += 1;
        stats.bump(&format!("transport_{kind}"));
        stats.bump(if auth_on { "transport_faults_with_auth_enabled" } else { "transport_faults_with_auth_disabled" });
        tr.push_str(kind);
        // the flood needs the server to notice that the connections are gone
        let served = probe(port, Duration::from_secs(20), if arng.chance(1, 2) { auth } else { None });
        let panics = crate::inst::drain_all_panics();
        if let Some(p) = panics.into_iter().find(|p| !p.contains("Bitcoin RPC")) {
            violation = Some(Violation::new(format!("panic-after-transport-fault/{kind}"), json!({"abuse_index": k, "kind": kind, "panic": p})));
            break;
        }
        if let Err(e) = served {
            violation = Some(Violation::new(format!("not-serving-after-transport-fault/{kind}"), json!({"abuse_index": k, "kind": kind, "probe": e})));
            break;
        }
        tr.push('+');
    }
    if violation.is_none() {
        // the write path: drop whatever is open, grow the chain, see the height
        let mut c = Client::new(port);
        let _ = c.call("brc20_clearCaches", json!([]), auth);
        let before = probe(port, Duration::from_secs(10), auth).unwrap_or(0);
        let r = c.call("brc20_mine", json!([2, 1_900_000_000u64]), auth).unwrap_or(Value::Null);
        let after = probe(port, Duration::from_secs(10), auth).unwrap_or(0);
        if !r["error"].is_null() || after != before + 2 {
            violation = Some(Violation::new("wedged-after-transport-faults", json!({"mine": r, "height_before": before, "height_after": after})));
        }
        stats.bump("write_probes");
    }
    srv.stop();
    let _ = std::fs::remove_dir_all(&dir);
    Outcome { stats, violation, transcript: tr, abuses }
}
