//! Hand-assembled contract library (DESIGN Appendix A) and calldata builders.
#![allow(dead_code)]
use crate::asm::{initcode, op::*, Asm};
use alloy::primitives::keccak256;

/// `Store`: one selector-less contract, byte 0 of calldata picks the behaviour.
pub fn store_runtime() -> Vec<u8> {
    let mut a = Asm::new();
    a.op(PUSH0).op(CALLDATALOAD).push(248).op(SHR); // [op]
    for (code, name) in [
        (1u64, "sstore"),
        (2, "log"),
        (3, "revert"),
        (4, "invalid"),
        (5, "spin"),
        (6, "sload"),
        (7, "selfdestruct"),
        (8, "create"),
        (9, "call"),
        (10, "multi"),
        (12, "echo"),
        (14, "burn"),
        (15, "blockinfo"),
    ] {
        a.op(DUP1).push(code).op(EQ).jumpi(name);
    }
    a.op(STOP);

    // 01 n (slot32 value32)*
    a.label("sstore");
    a.push(1).op(CALLDATALOAD).push(248).op(SHR); // [op,n]
    a.op(PUSH0); // [op,n,i]
    a.label("sstore_loop");
    a.op(DUP2).op(DUP2).op(LT).op(ISZERO).jumpi("sstore_end");
    a.op(DUP1).push(6).op(SHL).push(2).op(ADD); // [op,n,i,off]
    a.op(DUP1).push(32).op(ADD).op(CALLDATALOAD); // [..,off,value]
    a.op(SWAP1).op(CALLDATALOAD); // [..,value,slot]
    a.op(SSTORE);
    a.push(1).op(ADD);
    a.jump("sstore_loop");
    a.label("sstore_end").op(STOP);

    // 02 t topic32*t data
    a.label("log");
    a.push(1).op(CALLDATALOAD).push(248).op(SHR); // [op,t]
    a.op(DUP1).push(5).op(SHL).push(2).op(ADD); // [op,t,d]
    a.op(DUP1).op(CALLDATASIZE).op(SUB); // [op,t,d,len]
    a.op(DUP1).op(DUP3).op(PUSH0).op(CALLDATACOPY); // mem[0..len] = data
    for n in 0..5u64 {
        a.op(DUP3).push(n).op(EQ).jumpi(&format!("log{n}"));
    }
    a.op(STOP);
    for n in 0..5u64 {
        a.label(&format!("log{n}"));
        for k in (0..n).rev() {
            a.push(2 + 32 * k).op(CALLDATALOAD);
        }
        a.op(DUP1 + n as u8); // len
        a.op(PUSH0);
        a.op(LOG0 + n as u8);
        a.op(STOP);
    }

    // 03 data -> REVERT(data)
    a.label("revert");
    a.push(1).op(CALLDATASIZE).op(SUB); // [op,len]
    a.op(DUP1).push(1).op(PUSH0).op(CALLDATACOPY);
    a.op(PUSH0).op(REVERT);

    // 0c data -> RETURN(data)
    a.label("echo");
    a.push(1).op(CALLDATASIZE).op(SUB);
    a.op(DUP1).push(1).op(PUSH0).op(CALLDATACOPY);
    a.op(PUSH0).op(RETURN);

    a.label("invalid").op(INVALID);

    a.label("spin");
    a.jump("spin");

    // 06 slot32 -> RETURN(SLOAD(slot))
    a.label("sload");
    a.push(1).op(CALLDATALOAD).op(SLOAD).op(PUSH0).op(MSTORE);
    a.push(32).op(PUSH0).op(RETURN);

    // 07 addr20
    a.label("selfdestruct");
    a.push(1).op(CALLDATALOAD).push(96).op(SHR).op(SELFDESTRUCT);

    // 08 flag [salt32] initcode
    a.label("create");
    a.push(1).op(CALLDATALOAD).push(248).op(SHR); // [op,flag]
    a.jumpi("create2");
    a.push(2).op(CALLDATASIZE).op(SUB); // [op,len]
    a.op(DUP1).push(2).op(PUSH0).op(CALLDATACOPY);
    a.op(PUSH0).op(PUSH0).op(CREATE); // [op,addr]  (size=len already on stack)
    a.jump("created");
    a.label("create2");
    a.push(2).op(CALLDATALOAD); // [op,salt]
    a.push(34).op(CALLDATASIZE).op(SUB); // [op,salt,len]
    a.op(DUP1).push(34).op(PUSH0).op(CALLDATACOPY);
    a.op(PUSH0).op(PUSH0).op(CREATE2); // pops value, offset, size=len, salt
    a.label("created"); // [.., addr]
    a.op(DUP1).push(0xC0DE).op(SSTORE);
    a.op(PUSH0).op(MSTORE);
    a.push(32).op(PUSH0).op(RETURN);

    // 09 kind addr20 inner
    a.label("call");
    a.push(22).op(CALLDATASIZE).op(SUB); // [op,len]
    a.op(DUP1).push(22).op(PUSH0).op(CALLDATACOPY);
    a.push(1).op(CALLDATALOAD).push(248).op(SHR); // [op,len,kind]
    a.op(DUP1).push(1).op(EQ).jumpi("call_static");
    a.op(DUP1).push(2).op(EQ).jumpi("call_delegate");
    // CALL: retSize retOff argsSize argsOff value addr gas
    a.op(PUSH0).op(PUSH0).op(DUP4).op(PUSH0).op(PUSH0);
    a.push(2).op(CALLDATALOAD).push(96).op(SHR).op(GAS).op(CALL);
    a.jump("call_done");
    a.label("call_static");
    a.op(PUSH0).op(PUSH0).op(DUP4).op(PUSH0);
    a.push(2).op(CALLDATALOAD).push(96).op(SHR).op(GAS).op(STATICCALL);
    a.jump("call_done");
    a.label("call_delegate");
    a.op(PUSH0).op(PUSH0).op(DUP4).op(PUSH0);
    a.push(2).op(CALLDATALOAD).push(96).op(SHR).op(GAS).op(DELEGATECALL);
    a.label("call_done"); // [.., success]
    a.op(RETURNDATASIZE).op(PUSH0).op(PUSH0).op(RETURNDATACOPY);
    a.jumpi("call_ok");
    a.op(RETURNDATASIZE).op(PUSH0).op(REVERT);
    a.label("call_ok");
    a.op(RETURNDATASIZE).op(PUSH0).op(RETURN);

    // 0a k (len16 sub)*  : self-calls, failures ignored
    a.label("multi");
    a.push(1).op(CALLDATALOAD).push(248).op(SHR); // [op,k]
    a.push(2); // [op,k,ptr]
    a.label("multi_loop");
    a.op(DUP2).op(ISZERO).jumpi("multi_end");
    a.op(DUP1).op(CALLDATALOAD).push(240).op(SHR); // [op,k,ptr,len]
    a.op(DUP1).op(DUP3).push(2).op(ADD).op(PUSH0).op(CALLDATACOPY);
    a.op(PUSH0).op(PUSH0).op(DUP3).op(PUSH0).op(PUSH0).op(ADDRESS).op(GAS).op(CALL);
    a.op(POP);
    a.op(ADD).push(2).op(ADD); // [op,k,ptr']
    a.op(SWAP1).push(1).op(SWAP1).op(SUB).op(SWAP1);
    a.jump("multi_loop");
    a.label("multi_end").op(STOP);

    // 0e n16 : n cheap iterations
    a.label("burn");
    a.push(1).op(CALLDATALOAD).push(240).op(SHR); // [op,n]
    a.label("burn_loop");
    a.op(DUP1).op(ISZERO).jumpi("burn_end");
    a.push(1).op(SWAP1).op(SUB);
    a.op(DUP1).op(PUSH0).op(MSTORE);
    a.jump("burn_loop");
    a.label("burn_end").op(STOP);

    // 0f : RETURN(NUMBER, BLOCKHASH(NUMBER-1), CHAINID, GASLIMIT, COINBASE, BASEFEE, GASPRICE, ORIGIN, CALLER, ADDRESS,
    //             SELFBALANCE, CALLVALUE, BLOBBASEFEE, CODESIZE)   (context that predictions may depend on)
    a.label("blockinfo");
    a.op(NUMBER).op(PUSH0).op(MSTORE);
    a.push(1).op(NUMBER).op(SUB).op(BLOCKHASH).push(32).op(MSTORE);
    a.op(CHAINID).push(64).op(MSTORE);
    for (i, o) in [GASLIMIT, COINBASE, BASEFEE, GASPRICE, ORIGIN, CALLER, ADDRESS, SELFBALANCE, CALLVALUE, 0x4a, CODESIZE].iter().enumerate() {
        a.op(*o).push(96 + 32 * i as u64).op(MSTORE);
    }
    a.push(96 + 32 * 11).op(PUSH0).op(RETURN);

    a.finish()
}

/// init code whose runtime code is the 32-byte block number at creation
pub fn number_initcode() -> Vec<u8> {
    let mut a = Asm::new();
    a.op(NUMBER).op(PUSH0).op(MSTORE);
    a.push(32).op(PUSH0).op(RETURN);
    a.finish()
}

pub fn store_initcode() -> Vec<u8> {
    initcode(&store_runtime())
}

pub const PROBE_BASE: u64 = 0x100;
pub const PROBE_HASH_BASE: u64 = 0x200;
/// order of the context words the Probe writes to PROBE_BASE + i
pub const PROBE_FIELDS: [&str; 13] = [
    "number", "timestamp", "prevrandao", "chainid", "basefee", "gasprice", "coinbase", "origin",
    "caller", "fa_success", "fa_word", "fa_retsize", "marker",
];

/// `Probe`: records the execution context into storage. calldata = list of u16 look-back distances.
pub fn probe_runtime() -> Vec<u8> {
    let mut a = Asm::new();
    let simple = [NUMBER, TIMESTAMP, PREVRANDAO, CHAINID, BASEFEE, GASPRICE, COINBASE, ORIGIN, CALLER];
    for (i, o) in simple.iter().enumerate() {
        a.op(*o).push(PROBE_BASE + i as u64).op(SSTORE);
    }
    // mem[32..64] = 0 ; mem[0..4] = selector getTxId()
    let sel = &keccak256(b"getTxId()")[0..4];
    a.push_bytes(sel).push(224).op(SHL).op(PUSH0).op(MSTORE);
    a.push(32).push(32).push(4).op(PUSH0).push(0xfa).op(GAS).op(STATICCALL);
    a.push(PROBE_BASE + 9).op(SSTORE);
    a.push(32).op(MLOAD).push(PROBE_BASE + 10).op(SSTORE);
    a.op(RETURNDATASIZE).push(PROBE_BASE + 11).op(SSTORE);
    a.op(CALLDATASIZE).push(1).op(ADD).push(PROBE_BASE + 12).op(SSTORE);
    // blockhashes
    a.op(PUSH0); // [i]
    a.label("bh_loop");
    a.op(DUP1).push(1).op(SHL); // [i, 2i]
    a.op(DUP1).op(CALLDATASIZE).op(GT).op(ISZERO).jumpi("bh_end"); // calldatasize > 2i ?
    a.op(CALLDATALOAD).push(240).op(SHR); // [i, d]
    a.op(NUMBER).op(SUB); // NUMBER - d
    a.op(BLOCKHASH); // [i, h]
    a.op(DUP2).push(PROBE_HASH_BASE).op(ADD).op(SSTORE); // [i]
    a.push(1).op(ADD);
    a.jump("bh_loop");
    a.label("bh_end").op(STOP);
    a.finish()
}

pub fn probe_initcode() -> Vec<u8> {
    initcode(&probe_runtime())
}

// ------------------------------------------------------------------------------------------
// calldata builders for Store

pub fn word(v: u64) -> [u8; 32] {
    let mut w = [0u8; 32];
    w[24..].copy_from_slice(&v.to_be_bytes());
    w
}

pub fn cd_sstore(pairs: &[(u64, u64)]) -> Vec<u8> {
    let mut d = vec![1u8, pairs.len() as u8];
    for (s, v) in pairs {
        d.extend_from_slice(&word(*s));
        d.extend_from_slice(&word(*v));
    }
    d
}

pub fn cd_log(topics: &[[u8; 32]], data: &[u8]) -> Vec<u8> {
    let mut d = vec![2u8, topics.len() as u8];
    for t in topics {
        d.extend_from_slice(t);
    }
    d.extend_from_slice(data);
    d
}

pub fn cd_revert(data: &[u8]) -> Vec<u8> {
    let mut d = vec![3u8];
    d.extend_from_slice(data);
    d
}

pub fn cd_echo(data: &[u8]) -> Vec<u8> {
    let mut d = vec![12u8];
    d.extend_from_slice(data);
    d
}

pub fn cd_invalid() -> Vec<u8> {
    vec![4]
}
pub fn cd_spin() -> Vec<u8> {
    vec![5]
}
pub fn cd_sload(slot: u64) -> Vec<u8> {
    let mut d = vec![6u8];
    d.extend_from_slice(&word(slot));
    d
}
pub fn cd_selfdestruct(addr: &[u8; 20]) -> Vec<u8> {
    let mut d = vec![7u8];
    d.extend_from_slice(addr);
    d
}
pub fn cd_create(salt: Option<u64>, init: &[u8]) -> Vec<u8> {
    let mut d = vec![8u8];
    match salt {
        None => d.push(0),
        Some(s) => {
            d.push(1);
            d.extend_from_slice(&word(s));
        }
    }
    d.extend_from_slice(init);
    d
}
/// kind: 0 CALL, 1 STATICCALL, 2 DELEGATECALL
pub fn cd_call(kind: u8, addr: &[u8; 20], inner: &[u8]) -> Vec<u8> {
    let mut d = vec![9u8, kind];
    d.extend_from_slice(addr);
    d.extend_from_slice(inner);
    d
}
pub fn cd_multi(subs: &[Vec<u8>]) -> Vec<u8> {
    let mut d = vec![10u8, subs.len() as u8];
    for s in subs {
        d.extend_from_slice(&(s.len() as u16).to_be_bytes());
        d.extend_from_slice(s);
    }
    d
}
pub fn cd_burn(n: u16) -> Vec<u8> {
    let mut d = vec![14u8];
    d.extend_from_slice(&n.to_be_bytes());
    d
}
pub fn cd_blockinfo() -> Vec<u8> {
    vec![15]
}
pub fn cd_probe(distances: &[u16]) -> Vec<u8> {
    let mut d = vec![];
    for x in distances {
        d.extend_from_slice(&x.to_be_bytes());
    }
    d
}
