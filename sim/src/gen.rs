//! Seeded scenario generator with swarm-style profiles.
#![allow(dead_code)]
use crate::inst::SimConfig;
use crate::ops::*;
use crate::rng::Rng;

#[derive(Clone, Debug)]
pub enum CommitSched {
    Never,
    Every(u64),
    Random(u64, u64),
}

#[derive(Clone, Debug)]
pub struct Profile {
    pub blocks: (u64, u64),
    pub txs: (u64, u64),
    /// deploy, call, transact, deposit, withdraw
    pub w_tx: [u64; 5],
    pub commit: CommitSched,
    pub p_clear: (u64, u64),
    pub p_restart: (u64, u64),
    pub p_reorg: (u64, u64),
    pub p_mine: (u64, u64),
    pub p_read: (u64, u64),
    pub p_bad: (u64, u64),
    pub p_midblock: (u64, u64),
    pub p_explicit_hash: (u64, u64),
    pub enc_variety: bool,
    pub len_variety: bool,
    /// weight of ERC/controller traffic among call data
    pub w_erc: u64,
    pub w_hostile: u64,
    pub w_spin: u64,
    pub w_probe: u64,
    pub networks: Vec<&'static str>,
    pub traces: Vec<bool>,
    pub commit_after_init: (u64, u64),
    pub reorg_back: Vec<(i64, u64)>,
    pub signed_chaos: bool,
    /// after a reorg: resubmit the orphaned transactions (same inscription ids)
    pub p_resubmit: (u64, u64),
    /// a commit right before a reorg (the history rows the reorg needs were just pruned by that commit)
    pub p_commit_before_reorg: (u64, u64),
    /// a block under construction that holds nothing but a parked (future-nonce) signed transaction, a commit -
    /// which the engine accepts, nothing was accepted into the block - and then a loss of caches
    pub p_park_commit: (u64, u64),
}

impl Default for Profile {
    fn default() -> Self {
        Profile {
            blocks: (4, 24),
            txs: (0, 4),
            w_tx: [3, 8, 3, 3, 2],
            commit: CommitSched::Random(1, 4),
            p_clear: (0, 1),
            p_restart: (0, 1),
            p_reorg: (0, 1),
            p_mine: (1, 12),
            p_read: (0, 1),
            p_bad: (0, 1),
            p_midblock: (0, 1),
            p_explicit_hash: (1, 2),
            enc_variety: true,
            len_variety: false,
            w_erc: 3,
            w_hostile: 1,
            w_spin: 1,
            w_probe: 1,
            networks: vec!["signet", "regtest", "mainnet", "testnet4", "weird"],
            traces: vec![true, true, false],
            commit_after_init: (1, 2),
            reorg_back: vec![(1, 6), (2, 4), (3, 3), (5, 2), (9, 3), (10, 5), (11, 3), (12, 1), (0, 1), (-1, 1)],
            signed_chaos: false,
            p_resubmit: (1, 2),
            p_commit_before_reorg: (0, 1),
            p_park_commit: (0, 1),
        }
    }
}

pub struct Gen<'a> {
    pub rng: Rng,
    pub p: &'a Profile,
    next_id: u32,
    next_tag: u32,
    ts: u64,
    /// generator-side guesses (the World resolves the real values)
    pub est_height: i64,
    pub est_contracts: u64,
}

impl<'a> Gen<'a> {
    pub fn new(rng: Rng, p: &'a Profile) -> Gen<'a> {
        Gen { rng, p, next_id: 1, next_tag: 1, ts: 10, est_height: -1, est_contracts: 0 }
    }
    fn id(&mut self) -> u32 {
        self.next_id += 1;
        self.next_id
    }
    fn chance(&mut self, c: (u64, u64)) -> bool {
        c.0 > 0 && self.rng.chance(c.0, c.1)
    }
    pub fn who(&mut self) -> Who {
        match self.rng.below(10) {
            0..=5 => Who::Pk(self.rng.below(4) as u8),
            6..=7 => Who::Signer(self.rng.below(3) as u8),
            8 => Who::Contract(self.rng.below(4) as u8),
            _ => {
                if self.rng.chance(1, 2) {
                    Who::Indexer
                } else {
                    Who::Zero
                }
            }
        }
    }
    pub fn amount(&mut self) -> Amount {
        match self.rng.below(12) {
            0 => Amount::Small(0),
            1 => Amount::Max,
            2 => Amount::MaxMinus(self.rng.below(3)),
            3..=5 => Amount::Small(self.rng.range(1, 5)),
            _ => Amount::Small(self.rng.range(1, 1000)),
        }
    }
    pub fn ticker(&mut self) -> u8 {
        // bias to the first four (two case-variant pairs)
        if self.rng.chance(3, 4) {
            self.rng.below(4) as u8
        } else {
            self.rng.below(8) as u8
        }
    }
    pub fn erc(&mut self, hostile: bool) -> Erc {
        if hostile {
            return match self.rng.below(4) {
                0 => Erc::Mint { to: self.who(), amount: self.amount() },
                1 => Erc::Burn { from: self.who(), amount: self.amount() },
                2 => Erc::OwnerApprove { owner: self.who(), spender: self.who(), amount: self.amount() },
                _ => Erc::OwnerTransferFrom { spender: self.who(), from: self.who(), to: self.who(), amount: self.amount() },
            };
        }
        match self.rng.below(10) {
            0..=4 => Erc::Transfer { to: self.who(), amount: self.amount() },
            5..=6 => Erc::Approve { spender: self.who(), amount: self.amount() },
            7..=8 => Erc::TransferFrom { from: self.who(), to: self.who(), amount: self.amount() },
            _ => Erc::BalanceOf { who: self.who() },
        }
    }
    pub fn target(&mut self) -> Target {
        match self.rng.below(20) {
            0..=13 => Target::Contract(self.rng.below(6) as u8),
            14 => Target::Controller,
            15 => Target::Token(self.ticker()),
            16 => Target::Precompile(*self.rng.pick(&[1u8, 2, 3, 4, 5, 6, 9, 0x0a, 0x0b, 0xfa, 0xfb, 0xfe])),
            17 => Target::Dead,
            _ => Target::Contract(0),
        }
    }
    pub fn sstore_pairs(&mut self) -> Vec<(u64, u64)> {
        let n = self.rng.range(1, 4);
        (0..n)
            .map(|_| {
                let slot = self.rng.below(6);
                let v = match self.rng.below(6) {
                    0 | 1 => 0,
                    2 => 1,
                    3 => 1,
                    _ => self.rng.range(2, 9),
                };
                (slot, v)
            })
            .collect()
    }
    pub fn store_cd(&mut self, depth: u32) -> Cd {
        let w_spin = self.p.w_spin;
        let ws = [12u64, 8, 3, 2, 1, w_spin, 2, 1, 3, if depth < 2 { 3 } else { 0 }, if depth < 2 { 4 } else { 0 }, 1];
        match self.rng.weighted(&ws) {
            0 => Cd::Sstore(self.sstore_pairs()),
            1 => {
                let t = self.rng.below(5);
                Cd::Log { topics: (0..t).map(|_| self.rng.below(4)).collect(), data_len: self.rng.below(40) as u8 }
            }
            2 => Cd::Revert(self.rng.below(8) as u8),
            3 => Cd::Echo(self.rng.below(40) as u8),
            4 => Cd::Invalid,
            5 => Cd::Spin,
            6 => Cd::Sload(self.rng.below(6)),
            7 => Cd::SelfDestruct(self.who()),
            8 => Cd::CreateChild {
                salt: if self.rng.chance(1, 2) { Some(self.rng.below(3)) } else { None },
                kind: match self.rng.below(6) {
                    0..=2 => ChildKind::Store,
                    3 => ChildKind::Probe,
                    4 => ChildKind::Empty,
                    _ => ChildKind::Reverting,
                },
            },
            9 => Cd::CallOther {
                kind: self.rng.below(3) as u8,
                target: self.target(),
                inner: Box::new(self.store_cd(depth + 1)),
            },
            10 => {
                let n = self.rng.range(2, 4);
                Cd::Multi((0..n).map(|_| self.store_cd(depth + 1)).collect())
            }
            _ => Cd::Burn(self.rng.range(1, 3000) as u16),
        }
    }
    /// (target, calldata) pair that makes sense together
    pub fn call_pair(&mut self) -> (Target, Cd) {
        let ws = [20, self.p.w_erc, self.p.w_hostile, self.p.w_probe, 1, 1];
        match self.rng.weighted(&ws) {
            0 => (Target::Contract(self.rng.below(6) as u8), self.store_cd(0)),
            1 => {
                if self.rng.chance(2, 3) {
                    (Target::Controller, Cd::Ctl { ticker: self.ticker(), call: self.erc(false) })
                } else {
                    (Target::Token(self.ticker()), Cd::Tok(self.erc(false)))
                }
            }
            2 => {
                if self.rng.chance(1, 2) {
                    (Target::Controller, Cd::Ctl { ticker: self.ticker(), call: self.erc(true) })
                } else {
                    (Target::Token(self.ticker()), Cd::Tok(self.erc(true)))
                }
            }
            3 => (Target::Contract(self.rng.below(6) as u8), Cd::Probe(vec![1, 2, 10, 11, 256, 257])),
            4 => (self.target(), Cd::Raw(hex::encode(self.rng.bytes(8)))),
            _ => (self.target(), Cd::Empty),
        }
    }
    pub fn enc(&mut self) -> Enc {
        if !self.p.enc_variety || self.rng.chance(1, 2) {
            return Enc::Hex;
        }
        let pad = self.rng.below(4) as u8;
        match self.rng.below(3) {
            0 => Enc::B64Raw { pad },
            1 => Enc::B64Nada { pad },
            _ => Enc::B64Zstd { pad },
        }
    }
    pub fn len(&mut self) -> LenPolicy {
        if !self.p.len_variety || self.rng.chance(2, 3) {
            return LenPolicy::Generous;
        }
        match self.rng.below(6) {
            0 => LenPolicy::Zero,
            1 => LenPolicy::Exact(1),
            2 => LenPolicy::Exact(2),
            3 => LenPolicy::Exact(self.rng.range(3, 10)),
            4 => LenPolicy::Exact(self.rng.range(10, 100)),
            _ => LenPolicy::Exact(self.rng.range(100, 4000)),
        }
    }
    pub fn deploy_prog(&mut self) -> DeployProg {
        match self.rng.below(12) {
            0..=7 => DeployProg::Store,
            8 => DeployProg::Probe,
            9 => DeployProg::Empty,
            10 => DeployProg::Reverting,
            _ => DeployProg::Raw(hex::encode(self.rng.bytes(6))),
        }
    }
    pub fn tx(&mut self) -> Tx {
        let id = self.id();
        let kind = match self.rng.weighted(&self.p.w_tx) {
            0 => {
                self.est_contracts += 1;
                TxKind::Deploy { sender: self.rng.below(4) as u8, prog: self.deploy_prog() }
            }
            1 => {
                let (target, data) = self.call_pair();
                TxKind::Call { sender: self.rng.below(4) as u8, target, by_inscription: self.rng.chance(1, 8), data }
            }
            2 => {
                let nonce = if self.p.signed_chaos {
                    match self.rng.below(12) {
                        0..=4 => NonceSpec::Rel(0),
                        5 | 6 => NonceSpec::Rel(1),
                        7 => NonceSpec::Rel(2),
                        8 => NonceSpec::Rel(self.rng.range(3, 9) as i64),
                        9 => NonceSpec::Rel(-1),
                        10 => NonceSpec::Rel(10),
                        _ => NonceSpec::Rel(self.rng.range(11, 13) as i64),
                    }
                } else {
                    match self.rng.below(8) {
                        0..=5 => NonceSpec::Rel(0),
                        6 => NonceSpec::Rel(1),
                        _ => NonceSpec::Rel(2),
                    }
                };
                if self.rng.chance(1, 5) {
                    TxKind::Transact {
                        signer: self.rng.below(3) as u8,
                        nonce,
                        to: None,
                        data: Cd::Empty,
                        deploy: Some(DeployProg::Store),
                        chain_ok: !self.rng.chance(1, 20),
                    }
                } else {
                    let (target, data) = self.call_pair();
                    TxKind::Transact {
                        signer: self.rng.below(3) as u8,
                        nonce,
                        to: Some(target),
                        data,
                        deploy: None,
                        chain_ok: !self.rng.chance(1, 20),
                    }
                }
            }
            3 => TxKind::Deposit { to: Who::Pk(self.rng.below(4) as u8), ticker: self.ticker(), amount: self.amount() },
            _ => TxKind::Withdraw { from: Who::Pk(self.rng.below(4) as u8), ticker: self.ticker(), amount: self.amount() },
        };
        Tx { id, kind, len: self.len(), enc: self.enc() }
    }
    pub fn hash_mode(&mut self) -> HashMode {
        if self.chance(self.p.p_explicit_hash) {
            self.next_tag += 1;
            HashMode::Explicit(self.next_tag)
        } else {
            HashMode::Zero
        }
    }
    pub fn block(&mut self, finalise: bool) -> Op {
        self.ts += self.rng.range(0, 3);
        let n = self.rng.range(self.p.txs.0, self.p.txs.1);
        let txs = (0..n).map(|_| self.tx()).collect();
        if finalise {
            self.est_height += 1;
        }
        Op::Block { ts: self.ts, hash: self.hash_mode(), txs, finalise }
    }
    pub fn read_op(&mut self) -> ReadOp {
        if self.rng.chance(1, 16) {
            return ReadOp::BtcOverrides;
        }
        let r = self.read_op_plain();
        if matches!(r, ReadOp::Balance { .. } | ReadOp::Getters) || !self.rng.chance(1, 4) {
            return r;
        }
        // explicit block parameter; half of these run code that looks at block hashes around the chosen height
        let r = if self.rng.chance(1, 2) {
            let t = Target::Contract(self.rng.below(6) as u8);
            match r {
                ReadOp::EthCall { from, .. } => ReadOp::EthCall { from, to: Some(t), data: Cd::BlockInfo, deploy: None },
                ReadOp::EstimateGas { from, .. } => ReadOp::EstimateGas { from, to: Some(t), data: Cd::BlockInfo },
                ReadOp::EthCallMany { mut calls, overrides } => {
                    calls.push((Who::Pk(0), Some(t), Cd::BlockInfo));
                    ReadOp::EthCallMany { calls, overrides }
                }
                ReadOp::EstimateGasMany { mut calls } => {
                    calls.push((Who::Pk(0), Some(t), Cd::BlockInfo));
                    ReadOp::EstimateGasMany { calls }
                }
                other => other,
            }
        } else {
            r
        };
        let sel = match self.rng.below(12) {
            0 => BlockSel::Latest,
            1 => BlockSel::Pending,
            2 => BlockSel::Earliest,
            3..=4 => BlockSel::Back(self.rng.range(0, 12) as u8),
            5..=8 => BlockSel::Ahead(self.rng.range(1, 40) as u8),
            9 => BlockSel::DecimalBack(self.rng.range(0, 3) as u8),
            10 => BlockSel::Ahead(*self.rng.pick(&[2u8, 3, 255])),
            _ => BlockSel::Garbage,
        };
        ReadOp::AtBlock { sel, read: Box::new(r) }
    }
    fn read_op_plain(&mut self) -> ReadOp {
        match self.rng.below(10) {
            0..=3 => {
                if self.rng.chance(1, 5) {
                    ReadOp::EthCall { from: self.who(), to: None, data: Cd::Empty, deploy: Some(self.deploy_prog()) }
                } else {
                    let (t, d) = self.call_pair();
                    ReadOp::EthCall { from: self.who(), to: Some(t), data: d, deploy: None }
                }
            }
            4..=5 => {
                let n = self.rng.range(1, 4);
                let calls = (0..n)
                    .map(|_| {
                        let (t, d) = self.call_pair();
                        (self.who(), Some(t), d)
                    })
                    .collect();
                ReadOp::EthCallMany { calls, overrides: self.rng.chance(1, 2) }
            }
            6 => {
                let (t, d) = self.call_pair();
                ReadOp::EstimateGas { from: self.who(), to: Some(t), data: d }
            }
            7 => {
                let n = self.rng.range(1, 3);
                let calls = (0..n)
                    .map(|_| {
                        let (t, d) = self.call_pair();
                        (self.who(), Some(t), d)
                    })
                    .collect();
                ReadOp::EstimateGasMany { calls }
            }
            8 => ReadOp::Balance { who: Who::Pk(self.rng.below(4) as u8), ticker: self.ticker() },
            _ => ReadOp::Getters,
        }
    }
    pub fn bad_op(&mut self) -> BadOp {
        match self.rng.below(31) {
            25 | 26 => BadOp::ZeroIdxOtherHash,
            27 | 28 => BadOp::ZeroIdxExistingHash,
            29 => BadOp::OtherHashAndTimestamp,
            30 => BadOp::WrongIdxOtherTimestamp,
            21 => BadOp::BothEncodingsHexBad,
            22 => BadOp::BothEncodingsB64Bad,
            23 | 24 => BadOp::FinaliseExistingHash,
            0 => BadOp::WrongTxIdx(1),
            1 => BadOp::WrongTxIdx(-1),
            2 => BadOp::HugeTxIdx,
            3 => BadOp::OtherTimestamp,
            4 => BadOp::OtherHash,
            5 => BadOp::FinaliseWrongCount(1),
            6 => BadOp::FinaliseWrongCount(-1),
            7 => BadOp::ExistingHash,
            8 => BadOp::InitForeignGenesis,
            9 => BadOp::InitWrongHeight,
            10 => BadOp::CommitMidBlock,
            11 => BadOp::ReorgMidBlock,
            12 => BadOp::MineMidBlock,
            13 => BadOp::BothEncodings,
            14 => BadOp::NeitherEncoding,
            15 => BadOp::OddPkscript,
            16 => BadOp::NonHexPkscript,
            17 => BadOp::UndecodableTx,
            18 => BadOp::WrongChainTx,
            19 => BadOp::FarFutureTx,
            _ => BadOp::StaleTx,
        }
    }

    pub fn scenario(&mut self) -> Scenario {
        let network = self.rng.pick(&self.p.networks).to_string();
        let traces = *self.rng.pick(&self.p.traces);
        let config = SimConfig { network, traces, ..SimConfig::default() };
        let hash_seed = self.rng.next();
        let mut ops = vec![];
        // optional idle prefix mined before the controller exists
        if self.rng.chance(1, 6) {
            let n = self.rng.range(1, 3);
            ops.push(Op::Mine { n });
            self.est_height += n as i64;
        }
        ops.push(Op::Init { hash: self.hash_mode() });
        self.est_height += 1;
        if self.chance(self.p.commit_after_init) {
            ops.push(Op::Commit);
        }
        let n_blocks = self.rng.range(self.p.blocks.0, self.p.blocks.1);
        let mut since_commit = 0u64;
        for _ in 0..n_blocks {
            if self.chance(self.p.p_midblock) {
                // block built in two pieces, with something in between (decided by the profile's read/bad rates)
                ops.push(self.block(false));
                if self.chance(self.p.p_read) {
                    ops.push(Op::Read(ReadOp::Getters));
                }
                if self.chance(self.p.p_bad) {
                    let b = self.bad_op();
                    ops.push(Op::Bad(b));
                }
                if self.chance(self.p.p_clear) {
                    ops.push(Op::ClearCaches);
                    continue;
                }
                ops.push(self.block(true));
            } else {
                ops.push(self.block(true));
            }
            since_commit += 1;
            if self.chance(self.p.p_mine) {
                let n = *self.rng.pick(&[1u64, 2, 9, 10, 11, 12]);
                ops.push(Op::Mine { n });
                self.est_height += n as i64;
            }
            if self.chance(self.p.p_read) {
                let r = self.read_op();
                ops.push(Op::Read(r));
            }
            if self.chance(self.p.p_bad) {
                let b = self.bad_op();
                ops.push(Op::Bad(b));
            }
            let do_commit = match self.p.commit {
                CommitSched::Never => false,
                CommitSched::Every(k) => since_commit >= k,
                CommitSched::Random(a, b) => self.rng.chance(a, b),
            };
            if do_commit {
                ops.push(Op::Commit);
                since_commit = 0;
            }
            if self.chance(self.p.p_park_commit) {
                let id = self.id();
                self.ts += 1;
                let tx = Tx {
                    id,
                    kind: TxKind::Transact { signer: self.rng.below(3) as u8, nonce: NonceSpec::Rel(self.rng.range(1, 3) as i64), to: Some(Target::Contract(0)), data: Cd::Sload(1), deploy: None, chain_ok: true },
                    len: LenPolicy::Generous,
                    enc: Enc::Hex,
                };
                ops.push(Op::Block { ts: self.ts, hash: HashMode::Zero, txs: vec![tx], finalise: false });
                ops.push(Op::Commit);
                match self.rng.below(3) {
                    0 => ops.push(Op::ClearCaches),
                    1 => ops.push(Op::Restart { commit_first: false }),
                    _ => {}
                }
                since_commit = 0;
            }
            if self.chance(self.p.p_clear) {
                ops.push(Op::ClearCaches);
            }
            if self.chance(self.p.p_restart) {
                ops.push(Op::Restart { commit_first: self.rng.chance(1, 2) });
            }
            if self.chance(self.p.p_reorg) {
                let ws: Vec<u64> = self.p.reorg_back.iter().map(|x| x.1).collect();
                let back = self.p.reorg_back[self.rng.weighted(&ws)].0;
                if self.chance(self.p.p_commit_before_reorg) && !matches!(ops.last(), Some(Op::Commit)) {
                    ops.push(Op::Commit);
                }
                ops.push(Op::Reorg { back });
                if self.chance(self.p.p_resubmit) {
                    ops.push(Op::Resubmit { n: self.rng.range(1, 3) as u8, extra_first: self.rng.chance(1, 2) });
                }
            }
        }
        Scenario { config, hash_seed, ops }
    }
}
