#!/bin/bash
# Regenerate the shadow manifest for /repo's working tree and build the simulator, offline.
set -e
cd "$(dirname "$0")"
export CARGO_NET_OFFLINE=true
python3 tools/mkshadow.py
python3 tools/check_failpoints.py
# the harness crate's lock file is the repository's, plus nothing new (all deps are in it)
[ -f sim/Cargo.lock ] || cp "${VERIF_REPO:-/repo}/Cargo.lock" sim/Cargo.lock
cd sim
# serialise concurrent builds (several checks may start at once)
exec flock target.lock cargo build --offline 2>&1
